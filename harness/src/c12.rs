//! C12 — integer/bool parsing accepts std's language and returns the same value.
use crate::util::*;
use konst::primitive as kp;
use konst::parsing::{ErrorKind, ParseDirection};
use konst::Parser;

/// whole-string parsing vs `str::parse` (strings with a leading '+' excluded, as the property states)
macro_rules! whole_utf8 {
    ($($name:ident: $t:ty, $f:ident, $q:literal, $th:literal, $uq:literal, $ut:literal);* $(;)?) => { $(
        pub mod $name {
            use super::*;
            fn whole<const CAP: usize>() {
                sym_str!(s, CAP);
                kani::assume(s.is_empty() || s.as_bytes()[0] != b'+');
                let want: Option<$t> = s.parse::<$t>().ok();
                match (kp::$f(s), want) {
                    (Ok(a), Some(b)) => assert!(a == b),
                    (Err(_), None) => {}
                    _ => assert!(false),
                }
                must_reach!(want == Some(<$t>::MAX), "MAX");
                must_reach!(want == Some(<$t>::MIN) && s.len() > 1, "MIN");
                must_reach!(want.is_none() && s.len() == CAP && s.as_bytes()[CAP - 1].is_ascii_digit() && s.as_bytes()[0].is_ascii_digit(), "digits but not a number of the type");
            }
            tiers! { whole: unwind($uq, $ut), whole::<$q>(), whole::<$th>(),
                calls("konst::primitive::parse_*"),
                bounds("every valid UTF-8 string up to digits(MAX)+2 bytes without a leading '+'", "one byte longer") }
        }
    )* };
}

whole_utf8! {
    w_u8: u8, parse_u8, 4, 5, 7, 8;
    w_i8: i8, parse_i8, 5, 6, 8, 9;
    w_u16: u16, parse_u16, 6, 7, 9, 10;
    w_i16: i16, parse_i16, 7, 8, 10, 11;
}

/// wider types: every ASCII string (any byte < 0x80) up to the stated length vs `str::parse`
macro_rules! whole_ascii {
    ($($name:ident: $t:ty, $f:ident, $q:literal, $th:literal, $uq:literal, $ut:literal);* $(;)?) => { $(
        pub mod $name {
            use super::*;
            fn whole<const CAP: usize>() {
                let arr: [u8; CAP] = kani::any();
                let len: usize = kani::any();
                kani::assume(len <= CAP);
                let mut i = 0;
                while i < CAP {
                    kani::assume(arr[i] < 0x80);
                    i += 1;
                }
                let s = unsafe { core::str::from_utf8_unchecked(&arr[..len]) };
                kani::assume(s.is_empty() || arr[0] != b'+');
                let want: Option<$t> = s.parse::<$t>().ok();
                match (kp::$f(s), want) {
                    (Ok(a), Some(b)) => assert!(a == b),
                    (Err(_), None) => {}
                    _ => assert!(false),
                }
                must_reach!(want.is_some() && len == CAP, "full-length number");
                must_reach!(want.is_none() && len == CAP && arr[CAP - 1].is_ascii_digit() && arr[0].is_ascii_digit() && arr[1].is_ascii_digit(), "digits at both ends but rejected");
            }
            tiers! { whole: unwind($uq, $ut), whole::<$q>(), whole::<$th>(),
                calls("konst::primitive::parse_*"),
                bounds("every ASCII string up to the quick length (see harness) without a leading '+'", "up to the thorough length") }
        }
    )* };
}

whole_ascii! {
    w_u32: u32, parse_u32, 9, 12, 12, 15;
    w_i32: i32, parse_i32, 9, 13, 12, 16;
    w_u64: u64, parse_u64, 8, 21, 11, 24;
    w_i64: i64, parse_i64, 8, 12, 11, 15;
    w_usize: usize, parse_usize, 8, 21, 11, 24;
    w_isize: isize, parse_isize, 8, 12, 11, 15;
    w_u128: u128, parse_u128, 6, 12, 9, 15;
    w_i128: i128, parse_i128, 6, 12, 9, 15;
}

/// the MIN/MAX neighbourhood of the wide types: strings of exactly digits(MAX) digits (optionally
/// signed) whose leading digits are those of MAX, last 3 digits symbolic
macro_rules! boundary {
    ($($name:ident: $t:ty, $f:ident, $lit:literal, $n:literal, $neg:literal, $uw:literal);* $(;)?) => { $(
        pub mod $name {
            use super::*;
            fn boundary() {
                let mut buf: [u8; $n] = *$lit;
                // last three digits symbolic
                let d: [u8; 3] = kani::any();
                kani::assume(d[0] < 10 && d[1] < 10 && d[2] < 10);
                buf[$n - 3] = b'0' + d[0];
                buf[$n - 2] = b'0' + d[1];
                buf[$n - 1] = b'0' + d[2];
                let s = unsafe { core::str::from_utf8_unchecked(&buf) };
                let want: Option<$t> = s.parse::<$t>().ok();
                match (kp::$f(s), want) {
                    (Ok(a), Some(b)) => assert!(a == b),
                    (Err(_), None) => {}
                    _ => assert!(false),
                }
                must_reach!(want == Some(if $neg { <$t>::MIN } else { <$t>::MAX }), "the extreme value itself");
                must_reach!(want.is_none(), "just outside the type");
                must_reach!(want.is_some() && d[2] == 0, "just inside the type");
            }
            tiers! {
                #[kani::stub(core::str::from_utf8, crate::c03::from_utf8_stub)]
                boundary: unwind($uw, $uw), boundary(), boundary(),
                calls("konst::primitive::parse_*"),
                bounds("the 1000 decimal strings sharing all but the last 3 digits with MAX (or MIN)", "same") }
        }
    )* };
}

boundary! {
    b_u32: u32, parse_u32, b"4294967295", 10, false, 13;
    b_i32: i32, parse_i32, b"2147483647", 10, false, 13;
    b_i32n: i32, parse_i32, b"-2147483648", 11, true, 14;
    b_u64: u64, parse_u64, b"18446744073709551615", 20, false, 23;
    b_i64: i64, parse_i64, b"9223372036854775807", 19, false, 22;
    b_i64n: i64, parse_i64, b"-9223372036854775808", 20, true, 23;
    b_usize: usize, parse_usize, b"18446744073709551615", 20, false, 23;
    b_isizen: isize, parse_isize, b"-9223372036854775808", 20, true, 23;
    b_u128: u128, parse_u128, b"340282366920938463463374607431768211455", 39, false, 42;
    b_i128: i128, parse_i128, b"170141183460469231731687303715884105727", 39, false, 42;
    b_i128n: i128, parse_i128, b"-170141183460469231731687303715884105728", 40, true, 43;
}

fn bool_whole<const CAP: usize>() {
    sym_str!(s, CAP);
    let want = s.parse::<bool>().ok();
    match (kp::parse_bool(s), want) {
        (Ok(a), Some(b)) => assert!(a == b),
        (Err(_), None) => {}
        _ => assert!(false),
    }
    must_reach!(want == Some(true), "true");
    must_reach!(want == Some(false), "false");
    must_reach!(want.is_none() && s.len() == 6 && s.as_bytes()[0] == b'f' && s.as_bytes()[4] == b'e', "false + one more byte");
}
tiers! { bool_whole: unwind(8, 9), bool_whole::<6>(), bool_whole::<7>(),
    calls("konst::primitive::parse_bool"), bounds("every valid UTF-8 string <=6 bytes", "<=7 bytes") }

// ------------------------------------------------------------------ prefix parsing through the Parser

/// length of `-`? + longest digit run at the start of `b` (0 if there is no digit)
fn numeric_prefix(b: &[u8], signed: bool) -> usize {
    let mut i = 0;
    if signed && !b.is_empty() && b[0] == b'-' {
        i = 1;
    }
    let start = i;
    while i < b.len() && b[i].is_ascii_digit() {
        i += 1;
    }
    if i == start { 0 } else { i }
}

macro_rules! prefix {
    ($($name:ident: $t:ty, $f:ident, $signed:literal, $digits:literal, $q:literal, $th:literal, $uq:literal, $ut:literal);* $(;)?) => { $(
        pub mod $name {
            use super::*;
            fn prefix<const CAP: usize>() {
                sym_str!(s, CAP);
                let base: usize = kani::any();
                kani::assume(base <= 1 << 20);
                let p = Parser::with_start_offset(s, base);
                let k = numeric_prefix(s.as_bytes(), $signed);
                let want: Option<$t> = if k == 0 { None } else { s[..k].parse::<$t>().ok() };
                match (p.$f(), want) {
                    (Ok((v, rest)), Some(w)) => {
                        assert!(v == w);
                        let r = rest.remainder();
                        assert!(r.len() == s.len() - k && (r.is_empty() || r.as_ptr() == s[k..].as_ptr()));
                        assert!(rest.start_offset() == base + k && rest.end_offset() == base + s.len());
                    }
                    (Err(e), None) => {
                        // nothing consumed: the error points at the start of the input parser
                        assert!(e.offset() == base);
                        assert!(e.error_direction() == ParseDirection::FromStart);
                        assert!(e.kind() == ErrorKind::ParseInteger);
                    }
                    _ => assert!(false),
                }
                must_reach!(want.is_some() && k < s.len() && k > 1, "number followed by other text");
                must_reach!(CAP < $digits || (want.is_none() && k > 1), "digit run that does not fit the type (when the bound allows one)");
                must_reach!(k == 0 && s.len() == CAP, "no digit at the start");
            }
            tiers! { prefix: unwind($uq, $ut), prefix::<$q>(), prefix::<$th>(),
                calls("konst::Parser::parse_*", "konst::Parser::with_start_offset", "konst::Parser::remainder", "konst::parsing::ParseError::offset"),
                bounds("every valid UTF-8 string up to the quick length, base offset <= 2^20", "thorough length") }
        }
    )* };
}

prefix! {
    p_u8: u8, parse_u8, false, 3, 5, 6, 8, 9;
    p_i8: i8, parse_i8, true, 3, 5, 6, 8, 9;
    p_i16: i16, parse_i16, true, 5, 6, 8, 9, 11;
    p_u32: u32, parse_u32, false, 10, 7, 11, 10, 14;
    p_i64: i64, parse_i64, true, 19, 6, 8, 9, 11;
    p_u128: u128, parse_u128, false, 39, 5, 7, 8, 10;
}

fn prefix_bool<const CAP: usize>() {
    sym_str!(s, CAP);
    let base: usize = kani::any();
    kani::assume(base <= 1 << 20);
    let b = s.as_bytes();
    let want = if b.starts_with(b"true") { Some((true, 4)) } else if b.starts_with(b"false") { Some((false, 5)) } else { None };
    match (Parser::with_start_offset(s, base).parse_bool(), want) {
        (Ok((v, rest)), Some((w, k))) => {
            assert!(v == w && rest.remainder().len() == s.len() - k && rest.start_offset() == base + k);
        }
        (Err(e), None) => {
            assert!(e.offset() == base && e.kind() == ErrorKind::ParseBool && e.error_direction() == ParseDirection::FromStart);
        }
        _ => assert!(false),
    }
    must_reach!(want == Some((false, 5)) && s.len() == 7, "false + 2 bytes");
    must_reach!(want.is_none() && s.len() >= 4 && b[0] == b't' && b[1] == b'r' && b[2] == b'u', "tru + something else");
}
tiers! { prefix_bool: unwind(9, 10), prefix_bool::<7>(), prefix_bool::<8>(),
    calls("konst::Parser::parse_bool"), bounds("every valid UTF-8 string <=7 bytes", "<=8 bytes") }
