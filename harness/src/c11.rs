//! C11 — array-building macros return fully initialised arrays equal to std's.
//!
//! CBMC gives unwritten memory a nondeterministic value, so asserting the value of EVERY slot of a
//! built array is the check for "no unwritten element" (DESIGN 2.7). Hostile closures (break,
//! continue, return, labelled break, panic) with a symbolic trigger element must never let the macro
//! hand back an array: should_panic harnesses whose "returned" cover must be unreachable.
use crate::util::*;
use konst::array::{self, ArrayBuilder};

fn map_copy<const N: usize>() {
    let input: [u8; N] = kani::any();
    let m: u8 = kani::any();
    let x: u8 = kani::any();
    let got: [u16; N] = array::map!(input, |e| ((e & m) as u16) << 3 | (e ^ x) as u16 & 7);
    let want: [u16; N] = input.map(|e| ((e & m) as u16) << 3 | (e ^ x) as u16 & 7);
    let mut i = 0;
    while i < N {
        assert!(got[i] == want[i]);
        i += 1;
    }
    // explicit return type and pattern parameter forms
    let got2 = array::map!(input, |e: u8| -> u8 { e ^ x });
    let pairs: [(u8, u8); N] = input.map(|e| (e, e ^ m));
    let got3 = array::map!(pairs, |(a, b)| a ^ b);
    let mut i = 0;
    while i < N {
        assert!(got2[i] == input[i] ^ x && got3[i] == m);
        i += 1;
    }
    fn f(e: u8) -> u8 {
        e.wrapping_add(7)
    }
    let got4 = array::map!(input, f);
    let mut i = 0;
    while i < N {
        assert!(got4[i] == input[i].wrapping_add(7));
        i += 1;
    }
    must_reach!("every slot compared");
}

fn from_fn_copy<const N: usize>() {
    let m: u8 = kani::any();
    let x: u8 = kani::any();
    let got: [u8; N] = array::from_fn!(|i| (i as u8).wrapping_mul(3) & m ^ x);
    let want: [u8; N] = core::array::from_fn(|i| (i as u8).wrapping_mul(3) & m ^ x);
    let got2 = array::from_fn!([usize; N] => |i| i + 1);
    let mut i = 0;
    while i < N {
        assert!(got[i] == want[i] && got2[i] == i + 1);
        i += 1;
    }
    must_reach!("every slot compared");
}

/// Parameter patterns with a binding mode (`mut`, `ref`, `ref mut`): std hands the closure its own
/// copy of the index, so writing through the binding must not disturb the macro's loop counter
/// (konst <= 0.3.16 bound `ref mut i` to the counter itself: slots were skipped and returned unwritten).
fn from_fn_binding_modes<const N: usize>() {
    let d: usize = kani::any();
    kani::assume(d <= 3);
    let got: [usize; N] = array::from_fn!(|ref mut i| {
        *i += d;
        *i ^ 5
    });
    let want: [usize; N] = core::array::from_fn(|ref mut i| {
        *i += d;
        *i ^ 5
    });
    let got2: [usize; N] = array::from_fn!(|mut i| {
        i += d;
        i
    });
    let got3: [usize; N] = array::from_fn!(|ref i| *i + d);
    let mut i = 0;
    while i < N {
        assert!(got[i] == want[i], "from_fn!(|ref mut i| ..) slot differs from core::array::from_fn");
        assert!(got2[i] == i + d && got3[i] == i + d);
        i += 1;
    }
    must_reach!("every slot compared");
}

fn map_by_value<const N: usize>() {
    let input: [u8; N] = kani::any();
    let m: u8 = kani::any();
    let got: [u16; N] = array::map_!(input, |e| (e as u16) << 2 | (e & m) as u16 & 3);
    let want: [u16; N] = input.map(|e| (e as u16) << 2 | (e & m) as u16 & 3);
    let got2: [u8; N] = array::from_fn_!(|i| (i as u8) ^ m);
    let want2: [u8; N] = core::array::from_fn(|i| (i as u8) ^ m);
    let mut i = 0;
    while i < N {
        assert!(got[i] == want[i] && got2[i] == want2[i]);
        i += 1;
    }
    must_reach!("every slot compared");
}

// ------------------------------------------------------------------ hostile closures

fn map_break_panics<const N: usize>() {
    let input: [u8; N] = kani::any();
    let t: u8 = kani::any();
    let k: usize = kani::any();
    kani::assume(k < N && input[k] == t);
    let out: [u8; N] = array::map!(input, |e| {
        if e == t {
            break;
        }
        e
    });
    let _ = out;
    must_not_reach!("map! returned an array although the closure broke out of the loop");
}

fn from_fn_break_panics<const N: usize>() {
    let t: usize = kani::any();
    kani::assume(t < N);
    let out: [usize; N] = array::from_fn!(|i| {
        if i == t {
            break;
        }
        i
    });
    let _ = out;
    must_not_reach!("from_fn! returned an array although the closure broke out of the loop");
}

fn map_val_break_panics<const N: usize>() {
    let input: [u8; N] = kani::any();
    let t: u8 = kani::any();
    let k: usize = kani::any();
    kani::assume(k < N && input[k] == t);
    let out: [u8; N] = array::map_!(input, |e| {
        if e == t {
            break;
        }
        e
    });
    let _ = out;
    must_not_reach!("map_! returned an array although the closure broke out of the loop");
}

fn from_fn_val_break_panics<const N: usize>() {
    let t: usize = kani::any();
    kani::assume(t < N);
    let out: [usize; N] = array::from_fn_!(|i| {
        if i == t {
            break;
        }
        i
    });
    let _ = out;
    must_not_reach!("from_fn_! returned an array although the closure broke out of the loop");
}

fn map_closure_panics<const N: usize>() {
    let input: [u8; N] = kani::any();
    let t: u8 = kani::any();
    let k: usize = kani::any();
    kani::assume(k < N && input[k] == t);
    let out: [u8; N] = array::map!(input, |e| {
        if e == t {
            panic!("closure panic");
        }
        e
    });
    let _ = out;
    must_not_reach!("map! returned although the closure panicked");
}

/// `continue` inside the closure skips the index increment of `map!`: the macro never returns
/// (bounded claim: within the unwinding bound the only failures are unwinding assertions and the
/// statement after the macro is not reached)
fn map_continue_diverges<const N: usize>() {
    let input: [u8; N] = kani::any();
    let t: u8 = kani::any();
    let k: usize = kani::any();
    kani::assume(k < N && input[k] == t);
    let out: [u8; N] = array::map!(input, |e| {
        if e == t {
            continue;
        }
        e
    });
    let _ = out;
    must_not_reach!("map! returned an array although the closure `continue`d past a slot");
}

/// `return` / labelled `break` leave the enclosing function / block: no array is produced at all
fn map_nonlocal_exit<const N: usize>() {
    fn with_return<const N: usize>(input: [u8; N], t: u8) -> Option<[u8; N]> {
        Some(array::map!(input, |e| if e == t { return None } else { e ^ 1 }))
    }
    fn with_return_from_fn<const N: usize>(t: usize) -> Option<[usize; N]> {
        Some(array::from_fn!(|i| if i == t { return None } else { i * 2 }))
    }
    let input: [u8; N] = kani::any();
    let t: u8 = kani::any();
    let mut hit = false;
    let mut i = 0;
    while i < N {
        hit |= input[i] == t;
        i += 1;
    }
    match with_return(input, t) {
        None => assert!(hit),
        Some(out) => {
            assert!(!hit);
            let mut i = 0;
            while i < N {
                assert!(out[i] == input[i] ^ 1);
                i += 1;
            }
        }
    }
    let ti: usize = kani::any();
    match with_return_from_fn::<N>(ti) {
        None => assert!(ti < N),
        Some(out) => {
            assert!(ti >= N);
            let mut i = 0;
            while i < N {
                assert!(out[i] == i * 2);
                i += 1;
            }
        }
    }
    let labelled: Option<[u8; N]> = 'outer: {
        Some(array::map!(input, |e| {
            if e == t {
                break 'outer None;
            }
            e
        }))
    };
    assert!(labelled.is_none() == hit);
    must_reach!(hit && N > 0 || N == 0, "trigger element present");
    must_reach!(!hit, "trigger element absent");
}

// ------------------------------------------------------------------ ArrayBuilder

/// symbolic sequence of builder operations; `build` is only legal when full, `push` only when not
fn builder_ok<const N: usize>() {
    let vals: [u8; N] = kani::any();
    let mut b = ArrayBuilder::<u8, N>::new();
    let mut pushed = 0usize;
    let mut step = 0;
    while step < N + 2 {
        let op: u8 = kani::any();
        match op % 4 {
            0 if pushed < N => {
                b.push(vals[pushed]);
                pushed += 1;
            }
            1 => {
                let s = b.as_slice();
                assert!(s.len() == pushed);
                let mut i = 0;
                while i < pushed {
                    assert!(s[i] == vals[i]);
                    i += 1;
                }
            }
            2 => {
                assert!(b.len() == pushed && b.is_full() == (pushed == N));
                let c = b.copy();
                assert!(c.len() == pushed);
            }
            _ => {
                let s = b.as_mut_slice();
                assert!(s.len() == pushed);
                if pushed > 0 {
                    assert!(s[pushed - 1] == vals[pushed - 1]);
                }
            }
        }
        step += 1;
    }
    kani::assume(pushed == N);
    let out = b.build();
    let mut i = 0;
    while i < N {
        assert!(out[i] == vals[i]);
        i += 1;
    }
    must_reach!("built after N pushes interleaved with other operations");
}

fn builder_build_early_panics<const N: usize>() {
    let vals: [u8; N] = kani::any();
    let mut b = ArrayBuilder::<u8, N>::new();
    let k: usize = kani::any();
    kani::assume(k < N);
    let mut i = 0;
    while i < k {
        b.push(vals[i]);
        i += 1;
    }
    let out = b.build();
    let _ = out;
    must_not_reach!("build() returned an array with unwritten elements");
}

/// Zero-sized element types: "nothing to write" is not "initialised" - the element count is still
/// part of the contract (a `Drop` ZST would be dropped N times; std's from_fn calls the closure N times).
fn builder_zst_build_early_panics<const N: usize>() {
    let mut b = ArrayBuilder::<(), N>::new();
    let k: usize = kani::any();
    kani::assume(k < N);
    let mut i = 0;
    while i < k {
        b.push(());
        i += 1;
    }
    assert!(b.len() == k && !b.is_full());
    let out = b.build();
    let _ = out;
    must_not_reach!("build() returned from an under-filled builder of zero-sized elements");
}

fn builder_zst_push_full_panics<const N: usize>() {
    let mut b = ArrayBuilder::<(), N>::new();
    let mut i = 0;
    while i < N {
        assert!(!b.is_full());
        b.push(());
        i += 1;
    }
    assert!(b.is_full() && b.len() == N);
    b.push(());
    must_not_reach!("push() on a full builder of zero-sized elements returned");
}

fn from_fn_val_zst_break_panics<const N: usize>() {
    let t: usize = kani::any();
    kani::assume(t < N);
    let out: [(); N] = array::from_fn_!(|i| {
        if i == t {
            break;
        }
    });
    let _ = out;
    must_not_reach!("from_fn_! returned a zero-sized-element array although the closure broke out of the loop");
}

fn builder_push_full_panics<const N: usize>() {
    let vals: [u8; N] = kani::any();
    let mut b = ArrayBuilder::<u8, N>::new();
    let mut i = 0;
    while i < N {
        b.push(vals[i]);
        i += 1;
    }
    b.push(0);
    must_not_reach!("push() on a full builder returned");
}

macro_rules! per_n {
    ($($m:ident: $n:literal);* $(;)?) => { $(
        pub mod $m {
            use super::*;
            tiers! { map_copy: unwind(7, 7), map_copy::<$n>(), map_copy::<$n>(),
                calls("konst::array::map!"), bounds("every [u8;N] input, every closure of the mask/xor family, closure / typed / pattern / fn-path forms", "same") }
            tiers! { from_fn_copy: unwind(7, 7), from_fn_copy::<$n>(), from_fn_copy::<$n>(),
                calls("konst::array::from_fn!"), bounds("every closure of the index family, with and without the array type", "same") }
            tiers! { from_fn_binding_modes: unwind(7, 7), from_fn_binding_modes::<$n>(), from_fn_binding_modes::<$n>(),
                calls("konst::array::from_fn!"), bounds("closure parameter written as `ref mut i`, `mut i`, `ref i`; every increment 0..=3 written through the binding", "same") }
            tiers! { map_by_value: unwind(7, 7), map_by_value::<$n>(), map_by_value::<$n>(),
                calls("konst::array::map_!", "konst::array::from_fn_!"), bounds("every [u8;N] input, mask family", "same") }
            tiers! { map_nonlocal_exit: unwind(7, 7), map_nonlocal_exit::<$n>(), map_nonlocal_exit::<$n>(),
                calls("konst::array::map!", "konst::array::from_fn!"), bounds("every input and trigger; return / labelled break", "same") }
            tiers! { builder_ok: unwind(8, 8), builder_ok::<$n>(), builder_ok::<$n>(),
                calls("konst::array::ArrayBuilder::{new,push,as_slice,as_mut_slice,len,is_full,copy,build}"),
                bounds("every sequence of N+2 operations, every pushed value", "same") }
        }
    )* };
}
per_n! { n0: 0; n1: 1; n2: 2; n4: 4; }

macro_rules! per_n_panics {
    ($($m:ident: $n:literal);* $(;)?) => { $(
        pub mod $m {
            use super::*;
            tiers! { #[kani::should_panic] map_break_panics: unwind(7, 7), map_break_panics::<$n>(), map_break_panics::<$n>(),
                calls("konst::array::map!"), bounds("every input with the trigger at any position", "same"), panics_in("i == len", "map_break_panics") }
            tiers! { #[kani::should_panic] from_fn_break_panics: unwind(7, 7), from_fn_break_panics::<$n>(), from_fn_break_panics::<$n>(),
                calls("konst::array::from_fn!"), bounds("break at any index", "same"), panics_in("i == len", "from_fn_break_panics") }
            tiers! { #[kani::should_panic] map_val_break_panics: unwind(7, 7), map_val_break_panics::<$n>(), map_val_break_panics::<$n>(),
                calls("konst::array::map_!"), bounds("every input with the trigger at any position", "same"), panics_in("ArrayBuilder", "build", "non-fully-initialized") }
            tiers! { #[kani::should_panic] from_fn_val_break_panics: unwind(7, 7), from_fn_val_break_panics::<$n>(), from_fn_val_break_panics::<$n>(),
                calls("konst::array::from_fn_!"), bounds("break at any index", "same"), panics_in("ArrayBuilder", "build", "non-fully-initialized") }
            tiers! { #[kani::should_panic] map_closure_panics: unwind(7, 7), map_closure_panics::<$n>(), map_closure_panics::<$n>(),
                calls("konst::array::map!"), bounds("every input with the trigger at any position", "same"), panics_in("closure panic", "map_closure_panics") }
            tiers! { #[kani::should_panic] builder_build_early_panics: unwind(7, 7), builder_build_early_panics::<$n>(), builder_build_early_panics::<$n>(),
                calls("konst::array::ArrayBuilder::build"), bounds("every under-filled builder", "same"), panics_in("build", "non-fully-initialized") }
            tiers! { #[kani::should_panic] builder_zst_build_early_panics: unwind(7, 7), builder_zst_build_early_panics::<$n>(), builder_zst_build_early_panics::<$n>(),
                calls("konst::array::ArrayBuilder::<(), N>::build", "ArrayBuilder::is_full", "ArrayBuilder::len"), bounds("every under-filled builder of zero-sized elements", "same"), panics_in("build", "non-fully-initialized") }
            tiers! { #[kani::should_panic] builder_zst_push_full_panics: unwind(7, 7), builder_zst_push_full_panics::<$n>(), builder_zst_push_full_panics::<$n>(),
                calls("konst::array::ArrayBuilder::<(), N>::push", "ArrayBuilder::is_full"), bounds("full builder of zero-sized elements", "same"), panics_in("push", "full array") }
            tiers! { #[kani::should_panic] from_fn_val_zst_break_panics: unwind(7, 7), from_fn_val_zst_break_panics::<$n>(), from_fn_val_zst_break_panics::<$n>(),
                calls("konst::array::from_fn_!"), bounds("zero-sized elements, break at any index", "same"), panics_in("ArrayBuilder", "build", "non-fully-initialized") }
            tiers! { #[kani::should_panic] builder_push_full_panics: unwind(7, 7), builder_push_full_panics::<$n>(), builder_push_full_panics::<$n>(),
                calls("konst::array::ArrayBuilder::push"), bounds("full builder", "same"), panics_in("push", "full array") }
        }
    )* };
}
per_n_panics! { p1: 1; p3: 3; }

tiers! { map_continue_diverges: unwind(6, 6), map_continue_diverges::<2>(), map_continue_diverges::<3>(),
    calls("konst::array::map!"), bounds("[u8;2] input with the trigger at any position; 6 unwindings", "[u8;3]"), diverges }
