//! C14 — Parser operations transform the remainder exactly like the free string functions.
//!
//! Delegation check from an arbitrary reachable state (`sym_parser_state!`): the post-state
//! remainder equals (address and length) what the free function returns on the pre-state remainder,
//! `Ok` exactly when the function finds something. The free functions are tied to std / the naive
//! references by C04/C05. Split protocols are run to exhaustion against a naive splitter.
use crate::util::*;
use konst::parsing::{ErrorKind, ParseError};
use konst::{string as kstr, Parser};

#[inline]
fn same(a: &str, b: &str) -> bool {
    a.len() == b.len() && (a.is_empty() || a.as_ptr() == b.as_ptr())
}

macro_rules! delegating_infallible {
    ($name:ident, |$p:ident, $r:ident, $pat:ident, $c:ident, $u:ident| $op:expr, $free:expr) => {
        fn $name<const CAP: usize, const N: usize, const U: bool>() {
            sym_parser_state!(s, $p, a, b, base, flag, CAP);
            sym_str!($pat, N);
            let $c: char = kani::any();
            let $u: bool = U;
            let $r: &str = $p.remainder();
            let q: Parser<'_> = $op;
            let want: &str = $free;
            assert!(same(q.remainder(), want));
            must_reach!(want.len() < $r.len() && a > 0, "something removed, window not at 0");
            must_reach!(want.len() == $r.len() && $r.len() == CAP, "nothing removed from a full window");
        }
    };
}

delegating_infallible!(d_trim, |p, r, pat, c, u| p.trim(), kstr::trim(r));
delegating_infallible!(d_trim_start, |p, r, pat, c, u| p.trim_start(), kstr::trim_start(r));
delegating_infallible!(d_trim_end, |p, r, pat, c, u| p.trim_end(), kstr::trim_end(r));
delegating_infallible!(d_trim_matches, |p, r, pat, c, u| if u { p.trim_matches(c) } else { p.trim_matches(pat) },
    if u { kstr::trim_matches(r, c) } else { kstr::trim_matches(r, pat) });
delegating_infallible!(d_trim_start_matches, |p, r, pat, c, u| if u { p.trim_start_matches(c) } else { p.trim_start_matches(pat) },
    if u { kstr::trim_start_matches(r, c) } else { kstr::trim_start_matches(r, pat) });
delegating_infallible!(d_trim_end_matches, |p, r, pat, c, u| if u { p.trim_end_matches(c) } else { p.trim_end_matches(pat) },
    if u { kstr::trim_end_matches(r, c) } else { kstr::trim_end_matches(r, pat) });

macro_rules! delegating_fallible {
    ($name:ident, $kind:expr, |$p:ident, $r:ident, $pat:ident, $c:ident, $u:ident| $op:expr, $free:expr) => {
        fn $name<const CAP: usize, const N: usize, const U: bool>() {
            sym_parser_state!(s, $p, a, b, base, flag, CAP);
            sym_str!($pat, N);
            let $c: char = kani::any();
            let $u: bool = U;
            let $r: &str = $p.remainder();
            let got: Result<Parser<'_>, ParseError<'_>> = $op;
            let want: Option<&str> = $free;
            match (&got, want) {
                (Ok(q), Some(w)) => assert!(same(q.remainder(), w)),
                (Err(e), None) => assert!(e.kind() == $kind),
                _ => assert!(false),
            }
            must_reach!(want.is_some() && a > 0 && want.unwrap().len() + 1 < $r.len(), "found, more than one byte consumed");
            must_reach!(want.is_none() && $r.len() == CAP, "not found in a full window");
        }
    };
}

delegating_fallible!(d_strip_prefix, ErrorKind::Strip, |p, r, pat, c, u| if u { p.strip_prefix(c) } else { p.strip_prefix(pat) },
    if u { kstr::strip_prefix(r, c) } else { kstr::strip_prefix(r, pat) });
delegating_fallible!(d_strip_suffix, ErrorKind::Strip, |p, r, pat, c, u| if u { p.strip_suffix(c) } else { p.strip_suffix(pat) },
    if u { kstr::strip_suffix(r, c) } else { kstr::strip_suffix(r, pat) });
delegating_fallible!(d_find_skip, ErrorKind::Find, |p, r, pat, c, u| if u { p.find_skip(c) } else { p.find_skip(pat) },
    if u { kstr::find_skip(r, c) } else { kstr::find_skip(r, pat) });
delegating_fallible!(d_rfind_skip, ErrorKind::Find, |p, r, pat, c, u| if u { p.rfind_skip(c) } else { p.rfind_skip(pat) },
    if u { kstr::rfind_skip(r, c) } else { kstr::rfind_skip(r, pat) });

/// one split step = split_once on the remainder (or the whole remainder + the one-shot flag)
fn d_split_step<const CAP: usize, const N: usize, const WHICH: u8>() {
    sym_parser_state!(s, p, a, b, base, flag, CAP);
    sym_str!(pat, N);
    let r = p.remainder();
    let which: u8 = WHICH;
    let got = match which {
        0 => p.split(pat),
        1 => p.rsplit(pat),
        _ => p.split_keep(pat),
    };
    if flag {
        assert!(matches!(&got, Err(e) if e.kind() == ErrorKind::SplitExhausted));
    } else {
        let (piece, q) = match got {
            Ok(x) => x,
            Err(_) => {
                assert!(false);
                return;
            }
        };
        match which {
            0 => match kstr::split_once(r, pat) {
                Some((x, y)) => assert!(same(piece, x) && same(q.remainder(), y)),
                None => assert!(same(piece, r) && q.remainder().is_empty() && q.split(pat).is_err()),
            },
            1 => match kstr::rsplit_once(r, pat) {
                Some((x, y)) => assert!(same(piece, y) && same(q.remainder(), x)),
                None => assert!(same(piece, r) && q.remainder().is_empty() && q.rsplit(pat).is_err()),
            },
            _ => match kstr::find(r, pat) {
                Some(pos) => assert!(same(piece, &r[..pos]) && same(q.remainder(), &r[pos..])),
                None => assert!(same(piece, r) && q.remainder().is_empty() && q.split_keep(pat).is_err()),
            },
        }
    }
    must_reach!(!flag && kstr::find(r, pat) == Some(1) && a > 0 && pat.len() == N, "full-length delimiter at 1 of a window not at 0");
    must_reach!(!flag && kstr::find(r, pat).is_none() && r.len() > 1, "delimiter absent");
    must_reach!(flag, "exhausted");
}

fn d_split_terminator_step<const CAP: usize, const N: usize, const BACK: bool>() {
    sym_parser_state!(s, p, a, b, base, flag, CAP);
    sym_str!(pat, N);
    let r = p.remainder();
    let back: bool = BACK;
    let got = if back { p.rsplit_terminator(pat) } else { p.split_terminator(pat) };
    let want = if flag || r.is_empty() {
        None
    } else if back {
        kstr::rsplit_once(r, pat).map(|(x, y)| (y, x))
    } else {
        kstr::split_once(r, pat)
    };
    match (&got, want) {
        (Ok((piece, q)), Some((wp, wr))) => assert!(same(piece, wp) && same(q.remainder(), wr)),
        (Err(e), None) => {
            assert!(e.kind() == if flag { ErrorKind::SplitExhausted } else { ErrorKind::DelimiterNotFound });
        }
        _ => assert!(false),
    }
    must_reach!(want.is_some() && a > 0, "piece from a window not at 0");
    must_reach!(want.is_none() && !flag && !r.is_empty(), "delimiter not found in a non-empty window");
}

macro_rules! d_parse {
    ($name:ident, $f:ident) => {
        /// prefix parsing does not depend on where the window sits: same value / rest as a fresh parser
        fn $name<const CAP: usize>() {
            sym_parser_state!(s, p, a, b, base, flag, CAP);
            let r = p.remainder();
            match (p.$f(), Parser::new(r).$f()) {
                (Ok((v, q)), Ok((w, q2))) => assert!(v == w && same(q.remainder(), q2.remainder())),
                (Err(e), Err(e2)) => assert!(e.kind() == e2.kind()),
                _ => assert!(false),
            }
            must_reach!(a > 0 && p.$f().is_ok(), "parsed from a window that does not start at 0");
        }
    };
}
d_parse!(d_parse_u8, parse_u8);
d_parse!(d_parse_i32, parse_i32);
d_parse!(d_parse_bool, parse_bool);

// ------------------------------------------------------------------ split protocols to exhaustion

/// `split` with a non-empty delimiter repeated to exhaustion yields the pieces of `str::split`
/// (reference: naive splitter on `util::naive_find`), then `SplitExhausted` forever.
fn split_protocol<const CAP: usize, const N: usize, const SYM: bool>() {
    sym_str!(s, CAP);
    let p = Parser::new(s);
    // SYM == false: the concrete delimiter "," (quick tier); otherwise a symbolic delimiter of 1..=N bytes
    sym_str!(dsym, N);
    kani::assume(!dsym.is_empty());
    let d: &str = if SYM { dsym } else { "," };
    let w = p.remainder().as_bytes();
    let mut at = 0usize; // reference cursor into w
    let mut done = false;
    let mut q = p;
    let mut pieces = 0usize;
    let mut i = 0;
    while i < CAP + 3 {
        match q.split(d) {
            Ok((piece, next)) => {
                assert!(!done);
                let rest = &w[at..];
                match naive_find(rest, d.as_bytes()) {
                    Some(pos) => {
                        assert!(is_sub(w, piece.as_bytes(), at, pos));
                        at += pos + d.len();
                    }
                    None => {
                        assert!(is_sub(w, piece.as_bytes(), at, rest.len()));
                        at = w.len();
                        done = true;
                    }
                }
                q = next;
                pieces += 1;
            }
            Err(e) => {
                assert!(done && e.kind() == ErrorKind::SplitExhausted);
            }
        }
        i += 1;
    }
    assert!(done);
    must_reach!(pieces >= 3, "three or more pieces");
    must_reach!(pieces == 1 && w.len() == CAP, "no delimiter in a full window");
}

fn rsplit_protocol<const CAP: usize, const N: usize, const SYM: bool>() {
    sym_str!(s, CAP);
    let p = Parser::new(s);
    // SYM == false: the concrete delimiter "," (quick tier); otherwise a symbolic delimiter of 1..=N bytes
    sym_str!(dsym, N);
    kani::assume(!dsym.is_empty());
    let d: &str = if SYM { dsym } else { "," };
    let w = p.remainder().as_bytes();
    let mut end = w.len(); // reference cursor: the not-yet-split part is w[..end]
    let mut done = false;
    let mut q = p;
    let mut pieces = 0usize;
    let mut i = 0;
    while i < CAP + 3 {
        match q.rsplit(d) {
            Ok((piece, next)) => {
                assert!(!done);
                let rest = &w[..end];
                match naive_rfind(rest, d.as_bytes()) {
                    Some(pos) => {
                        assert!(is_sub(w, piece.as_bytes(), pos + d.len(), end - pos - d.len()));
                        end = pos;
                    }
                    None => {
                        assert!(is_sub(w, piece.as_bytes(), 0, end));
                        end = 0;
                        done = true;
                    }
                }
                q = next;
                pieces += 1;
            }
            Err(e) => {
                assert!(done && e.kind() == ErrorKind::SplitExhausted);
            }
        }
        i += 1;
    }
    assert!(done);
    must_reach!(pieces >= 3, "three or more pieces");
}

/// `split_terminator`: every piece that is followed by a delimiter, then an error forever
fn split_terminator_protocol<const CAP: usize, const N: usize, const BACK: bool, const SYM: bool>() {
    sym_str!(s, CAP);
    let p = Parser::new(s);
    // SYM == false: the concrete delimiter "," (quick tier); otherwise a symbolic delimiter of 1..=N bytes
    sym_str!(dsym, N);
    kani::assume(!dsym.is_empty());
    let d: &str = if SYM { dsym } else { "," };
    let back: bool = BACK;
    let w = p.remainder().as_bytes();
    let (mut lo, mut hi) = (0usize, w.len());
    let mut failed = false;
    let mut q = p;
    let mut pieces = 0usize;
    let mut i = 0;
    while i < CAP + 2 {
        let step = if back { q.rsplit_terminator(d) } else { q.split_terminator(d) };
        match step {
            Ok((piece, next)) => {
                assert!(!failed);
                let rest = &w[lo..hi];
                if back {
                    let pos = naive_rfind(rest, d.as_bytes()).unwrap();
                    assert!(is_sub(w, piece.as_bytes(), lo + pos + d.len(), rest.len() - pos - d.len()));
                    hi = lo + pos;
                } else {
                    let pos = naive_find(rest, d.as_bytes()).unwrap();
                    assert!(is_sub(w, piece.as_bytes(), lo, pos));
                    lo += pos + d.len();
                }
                q = next;
                pieces += 1;
            }
            Err(_) => {
                // fails exactly when no delimiter is left in the unsplit part (or it was used up)
                if !failed {
                    let rest = &w[lo..hi];
                    assert!(rest.is_empty() || naive_find(rest, d.as_bytes()).is_none());
                }
                failed = true;
            }
        }
        i += 1;
    }
    assert!(failed);
    must_reach!(pieces >= 2, "two pieces each followed (preceded) by a delimiter");
}

/// the one-shot flag survives every non-split operation that can run between two split steps
fn split_interleaved<const CAP: usize, const N: usize, const GROUP: u8>() {
    // the flag only ever accompanies an empty window, so the exhausted state is an empty parser;
    // where it sits in the original string only matters for the offsets (C13)
    let base: usize = kani::any();
    kani::assume(base <= 1 << 30);
    let p = match Parser::with_start_offset("", base).split('x') {
        Ok((_, q)) => q,
        Err(_) => return,
    };
    sym_str!(pat, N);
    let c: char = kani::any();
    let n: usize = kani::any();
    let op: u8 = kani::any();
    kani::assume(op / 4 == GROUP && op < 12);
    let q = match op {
        0 => p.trim(),
        1 => p.trim_start(),
        2 => p.trim_end(),
        3 => p.trim_matches(pat),
        4 => p.trim_start_matches(c),
        5 => p.trim_end_matches(pat),
        6 => p.skip(n),
        7 => p.skip_back(n),
        8 => match p.strip_prefix(pat) { Ok(x) => x, Err(_) => p },
        9 => match p.strip_suffix(c) { Ok(x) => x, Err(_) => p },
        10 => match p.find_skip(pat) { Ok(x) => x, Err(_) => p },
        _ => match p.rfind_skip(pat) { Ok(x) => x, Err(_) => p },
    };
    assert!(matches!(q.split(pat), Err(e) if e.kind() == ErrorKind::SplitExhausted));
    assert!(matches!(q.rsplit(c), Err(e) if e.kind() == ErrorKind::SplitExhausted));
    assert!(matches!(q.split_terminator(pat), Err(e) if e.kind() == ErrorKind::SplitExhausted));
    must_reach!(op % 4 == 0, "first operation of the group");
    must_reach!(op % 4 == 3, "last operation of the group");
}

tiers! { trim: unwind(9, 10), d_trim::<4, 1, false>(), d_trim::<6, 1, false>(),
    calls("konst::Parser::trim", "konst::string::trim"),
    bounds("original string <=4 bytes valid UTF-8, every window on char boundaries, base <= 2^30", "string <=6") }
tiers! { trim_start: unwind(9, 10), d_trim_start::<4, 1, false>(), d_trim_start::<6, 1, false>(),
    calls("konst::Parser::trim_start", "konst::string::trim_start"),
    bounds("original string <=4 bytes valid UTF-8, every window on char boundaries, base <= 2^30", "string <=6") }
tiers! { trim_end: unwind(9, 10), d_trim_end::<4, 1, false>(), d_trim_end::<6, 1, false>(),
    calls("konst::Parser::trim_end", "konst::string::trim_end"),
    bounds("original string <=4 bytes valid UTF-8, every window on char boundaries, base <= 2^30", "string <=6") }
tiers! { trim_matches_str: unwind(9, 10), d_trim_matches::<4, 2, false>(), d_trim_matches::<6, 3, false>(),
    calls("konst::Parser::trim_matches::<&str>", "konst::string::trim_matches"),
    bounds("original string <=4 bytes valid UTF-8, every window on char boundaries, base <= 2^30, str pattern <=2 bytes incl. empty", "string <=6, pattern <=3") }
tiers! { trim_matches_char: unwind(9, 10), d_trim_matches::<4, 1, true>(), d_trim_matches::<6, 1, true>(),
    calls("konst::Parser::trim_matches::<char>", "konst::string::trim_matches"),
    bounds("original string <=4 bytes valid UTF-8, every window on char boundaries, base <= 2^30, every char", "string <=6") }
tiers! { trim_start_matches_str: unwind(9, 10), d_trim_start_matches::<4, 2, false>(), d_trim_start_matches::<6, 3, false>(),
    calls("konst::Parser::trim_start_matches::<&str>", "konst::string::trim_start_matches"),
    bounds("original string <=4 bytes valid UTF-8, every window on char boundaries, base <= 2^30, str pattern <=2 bytes incl. empty", "string <=6, pattern <=3") }
tiers! { trim_start_matches_char: unwind(9, 10), d_trim_start_matches::<4, 1, true>(), d_trim_start_matches::<6, 1, true>(),
    calls("konst::Parser::trim_start_matches::<char>", "konst::string::trim_start_matches"),
    bounds("original string <=4 bytes valid UTF-8, every window on char boundaries, base <= 2^30, every char", "string <=6") }
tiers! { trim_end_matches_str: unwind(9, 10), d_trim_end_matches::<4, 2, false>(), d_trim_end_matches::<6, 3, false>(),
    calls("konst::Parser::trim_end_matches::<&str>", "konst::string::trim_end_matches"),
    bounds("original string <=4 bytes valid UTF-8, every window on char boundaries, base <= 2^30, str pattern <=2 bytes incl. empty", "string <=6, pattern <=3") }
tiers! { trim_end_matches_char: unwind(9, 10), d_trim_end_matches::<4, 1, true>(), d_trim_end_matches::<6, 1, true>(),
    calls("konst::Parser::trim_end_matches::<char>", "konst::string::trim_end_matches"),
    bounds("original string <=4 bytes valid UTF-8, every window on char boundaries, base <= 2^30, every char", "string <=6") }
tiers! { strip_prefix_str: unwind(9, 10), d_strip_prefix::<4, 2, false>(), d_strip_prefix::<6, 3, false>(),
    calls("konst::Parser::strip_prefix::<&str>", "konst::string::strip_prefix"),
    bounds("original string <=4 bytes valid UTF-8, every window on char boundaries, base <= 2^30, str pattern <=2 bytes incl. empty", "string <=6, pattern <=3") }
tiers! { strip_prefix_char: unwind(9, 10), d_strip_prefix::<4, 1, true>(), d_strip_prefix::<6, 1, true>(),
    calls("konst::Parser::strip_prefix::<char>", "konst::string::strip_prefix"),
    bounds("original string <=4 bytes valid UTF-8, every window on char boundaries, base <= 2^30, every char", "string <=6") }
tiers! { strip_suffix_str: unwind(9, 10), d_strip_suffix::<4, 2, false>(), d_strip_suffix::<6, 3, false>(),
    calls("konst::Parser::strip_suffix::<&str>", "konst::string::strip_suffix"),
    bounds("original string <=4 bytes valid UTF-8, every window on char boundaries, base <= 2^30, str pattern <=2 bytes incl. empty", "string <=6, pattern <=3") }
tiers! { strip_suffix_char: unwind(9, 10), d_strip_suffix::<4, 1, true>(), d_strip_suffix::<6, 1, true>(),
    calls("konst::Parser::strip_suffix::<char>", "konst::string::strip_suffix"),
    bounds("original string <=4 bytes valid UTF-8, every window on char boundaries, base <= 2^30, every char", "string <=6") }
tiers! { find_skip_str: unwind(9, 10), d_find_skip::<4, 2, false>(), d_find_skip::<6, 3, false>(),
    calls("konst::Parser::find_skip::<&str>", "konst::string::find_skip"),
    bounds("original string <=4 bytes valid UTF-8, every window on char boundaries, base <= 2^30, str pattern <=2 bytes incl. empty", "string <=6, pattern <=3") }
tiers! { find_skip_char: unwind(9, 10), d_find_skip::<4, 1, true>(), d_find_skip::<6, 1, true>(),
    calls("konst::Parser::find_skip::<char>", "konst::string::find_skip"),
    bounds("original string <=4 bytes valid UTF-8, every window on char boundaries, base <= 2^30, every char", "string <=6") }
tiers! { rfind_skip_str: unwind(9, 10), d_rfind_skip::<4, 2, false>(), d_rfind_skip::<6, 3, false>(),
    calls("konst::Parser::rfind_skip::<&str>", "konst::string::rfind_skip"),
    bounds("original string <=4 bytes valid UTF-8, every window on char boundaries, base <= 2^30, str pattern <=2 bytes incl. empty", "string <=6, pattern <=3") }
tiers! { rfind_skip_char: unwind(9, 10), d_rfind_skip::<4, 1, true>(), d_rfind_skip::<6, 1, true>(),
    calls("konst::Parser::rfind_skip::<char>", "konst::string::rfind_skip"),
    bounds("original string <=4 bytes valid UTF-8, every window on char boundaries, base <= 2^30, every char", "string <=6") }
tiers! { split_step: unwind(9, 10), d_split_step::<4, 2, 0>(), d_split_step::<6, 3, 0>(),
    calls("konst::Parser::split", "konst::string::split_once", "konst::string::rsplit_once", "konst::string::find"),
    bounds("original string <=4 bytes valid UTF-8, every window on char boundaries, base <= 2^30, both flag values, delimiter <=2 bytes incl. empty", "string <=6, delimiter <=3") }
tiers! { rsplit_step: unwind(9, 10), d_split_step::<4, 2, 1>(), d_split_step::<6, 3, 1>(),
    calls("konst::Parser::rsplit", "konst::string::split_once", "konst::string::rsplit_once", "konst::string::find"),
    bounds("original string <=4 bytes valid UTF-8, every window on char boundaries, base <= 2^30, both flag values, delimiter <=2 bytes incl. empty", "string <=6, delimiter <=3") }
tiers! { split_keep_step: unwind(9, 10), d_split_step::<4, 2, 2>(), d_split_step::<6, 3, 2>(),
    calls("konst::Parser::split_keep", "konst::string::split_once", "konst::string::rsplit_once", "konst::string::find"),
    bounds("original string <=4 bytes valid UTF-8, every window on char boundaries, base <= 2^30, both flag values, delimiter <=2 bytes incl. empty", "string <=6, delimiter <=3") }
tiers! { split_terminator_step: unwind(9, 10), d_split_terminator_step::<4, 2, false>(), d_split_terminator_step::<6, 3, false>(),
    calls("konst::Parser::split_terminator", "konst::string::split_once", "konst::string::rsplit_once"),
    bounds("original string <=4 bytes valid UTF-8, every window on char boundaries, base <= 2^30, both flag values, delimiter <=2 bytes incl. empty", "string <=6, delimiter <=3") }
tiers! { rsplit_terminator_step: unwind(9, 10), d_split_terminator_step::<4, 2, true>(), d_split_terminator_step::<6, 3, true>(),
    calls("konst::Parser::rsplit_terminator", "konst::string::split_once", "konst::string::rsplit_once"),
    bounds("original string <=4 bytes valid UTF-8, every window on char boundaries, base <= 2^30, both flag values, delimiter <=2 bytes incl. empty", "string <=6, delimiter <=3") }
tiers! { parse_u8: unwind(9, 10), d_parse_u8::<5>(), d_parse_u8::<6>(),
    calls("konst::Parser::parse_u8"),
    bounds("string <=5 bytes, every window", "string <=6") }
tiers! { parse_i32: unwind(9, 10), d_parse_i32::<5>(), d_parse_i32::<6>(),
    calls("konst::Parser::parse_i32"),
    bounds("string <=5 bytes, every window", "string <=6") }
tiers! { parse_bool: unwind(9, 10), d_parse_bool::<6>(), d_parse_bool::<7>(),
    calls("konst::Parser::parse_bool"),
    bounds("string <=6 bytes, every window", "string <=7") }
tiers! { split_protocol: unwind(10, 11), split_protocol::<3, 1, false>(), split_protocol::<4, 1, false>(),
    calls("konst::Parser::split"),
    bounds("fresh parser over every string <=3 bytes, the delimiter \",\", split repeated 7 times", "every string <=4 bytes, the delimiter \",\" (a symbolic 1-byte delimiter takes 17-30+ min per harness)") }
tiers! { rsplit_protocol: unwind(10, 11), rsplit_protocol::<3, 1, false>(), rsplit_protocol::<4, 1, false>(),
    calls("konst::Parser::rsplit"),
    bounds("fresh parser over every string <=3 bytes, the delimiter \",\", rsplit repeated 7 times", "every string <=4 bytes, the delimiter \",\" (a symbolic 1-byte delimiter takes 17-30+ min per harness)") }
tiers! { split_terminator_protocol: unwind(10, 11), split_terminator_protocol::<3, 1, false, false>(), split_terminator_protocol::<4, 1, false, false>(),
    calls("konst::Parser::split_terminator"),
    bounds("fresh parser over every string <=3 bytes, the delimiter \",\", repeated 6 times", "every string <=4 bytes, the delimiter \",\" (a symbolic 1-byte delimiter takes 17-30+ min per harness)") }
tiers! { rsplit_terminator_protocol: unwind(10, 11), split_terminator_protocol::<3, 1, true, false>(), split_terminator_protocol::<4, 1, true, false>(),
    calls("konst::Parser::rsplit_terminator"),
    bounds("fresh parser over every string <=3 bytes, the delimiter \",\", repeated 6 times", "string <=6, delimiter <=3") }
tiers! { split_interleaved_0: unwind(9, 10), split_interleaved::<1, 1, 0>(), split_interleaved::<1, 3, 0>(),
    calls("konst::Parser::{trim,trim_start,trim_end,trim_matches}", "konst::Parser::split", "konst::Parser::rsplit", "konst::Parser::split_terminator"),
    bounds("the exhausted (empty, flagged) parser at any base offset, one arbitrary operation of the group with a pattern <=1 byte / any char / any count, then each split form", "string <=5") }
tiers! { split_interleaved_1: unwind(9, 10), split_interleaved::<1, 1, 1>(), split_interleaved::<1, 3, 1>(),
    calls("konst::Parser::{trim_start_matches,trim_end_matches,skip,skip_back}", "konst::Parser::split", "konst::Parser::rsplit", "konst::Parser::split_terminator"),
    bounds("the exhausted (empty, flagged) parser at any base offset, one arbitrary operation of the group with a pattern <=1 byte / any char / any count, then each split form", "string <=5") }
tiers! { split_interleaved_2: unwind(9, 10), split_interleaved::<1, 1, 2>(), split_interleaved::<1, 3, 2>(),
    calls("konst::Parser::{strip_prefix,strip_suffix,find_skip,rfind_skip}", "konst::Parser::split", "konst::Parser::rsplit", "konst::Parser::split_terminator"),
    bounds("the exhausted (empty, flagged) parser at any base offset, one arbitrary operation of the group with a pattern <=1 byte / any char / any count, then each split form", "string <=5") }
