//! C03 — string slicing agrees with std str indexing, including char-boundary rules.
use crate::util::*;
use konst::string as kstr;

#[inline]
fn same(a: &str, b: &str) -> bool {
    a.len() == b.len() && (a.is_empty() || a.as_ptr() == b.as_ptr())
}
#[inline]
fn same_opt(a: Option<&str>, b: Option<&str>) -> bool {
    match (a, b) {
        (None, None) => true,
        (Some(a), Some(b)) => same(a, b),
        _ => false,
    }
}

/// Stub for the panic-message path only (DESIGN 2.6): `basic_panic` validates its 256-byte message
/// buffer before panicking; both outcomes panic, so the validation result is irrelevant.
pub fn from_utf8_stub(v: &[u8]) -> Result<&str, core::str::Utf8Error> {
    Ok(unsafe { core::str::from_utf8_unchecked(v) })
}

fn boundary_predicate<const CAP: usize>() {
    sym_str!(s, CAP);
    let i: usize = kani::any();
    assert!(kstr::is_char_boundary(s, i) == s.is_char_boundary(i));
    must_reach!(i > 0 && i < s.len() && !s.is_char_boundary(i), "index inside a character");
    must_reach!(i > s.len(), "index beyond the length");
    must_reach!(i == s.len() && s.len() == CAP, "index at the end of a full string");
}

fn fallible_getters<const CAP: usize>() {
    sym_str!(s, CAP);
    let i: usize = kani::any();
    let j: usize = kani::any();
    assert!(same_opt(kstr::get_from(s, i), s.get(i..)));
    assert!(same_opt(kstr::get_up_to(s, i), s.get(..i)));
    assert!(same_opt(kstr::get_range(s, i, j), s.get(i..j)));
    must_reach!(i > 0 && i < j && j < s.len() && s.get(i..j).is_some(), "interior range on boundaries");
    must_reach!(i < j && j < s.len() && s.is_char_boundary(i) && !s.is_char_boundary(j), "end inside a character");
    must_reach!(i > j && j > 0, "inverted range");
}

/// does an index count as "in range and inside a character"?
#[inline]
fn inside_char(s: &str, i: usize) -> bool {
    i < s.len() && !s.is_char_boundary(i)
}

fn clamping_ok<const CAP: usize>() {
    sym_str!(s, CAP);
    let i: usize = kani::any();
    let j: usize = kani::any();
    let sel: u8 = kani::any();
    let len = s.len();
    let ci = if i > len { len } else { i };
    let cj = if j > len { len } else { j };
    match sel {
        0 => {
            kani::assume(!inside_char(s, i));
            assert!(same(kstr::str_from(s, i), &s[ci..]));
        }
        1 => {
            kani::assume(!inside_char(s, i));
            assert!(same(kstr::str_up_to(s, i), &s[..ci]));
        }
        2 => {
            kani::assume(!inside_char(s, i) && !inside_char(s, j));
            let got = kstr::str_range(s, i, j);
            if ci <= cj {
                assert!(same(got, &s[ci..cj]));
            } else {
                assert!(got.is_empty());
            }
        }
        _ => {
            kani::assume(sel == 3);
            kani::assume(!inside_char(s, i));
            let (a, b) = kstr::split_at(s, i);
            assert!(same(a, &s[..ci]) && same(b, &s[ci..]));
        }
    }
    must_reach!(sel == 2 && i > 0 && i < j && j < len, "interior str_range");
    must_reach!(sel == 2 && i > j && j > 0 && i < len, "inverted str_range");
    must_reach!(sel == 0 && i > len && len > 0, "str_from beyond the length");
    must_reach!(sel == 3 && i > 0 && i < len, "interior split_at");
    must_reach!(sel == 1 && i == usize::MAX, "str_up_to usize::MAX");
}

fn str_from_panics<const CAP: usize>() {
    sym_str!(s, CAP);
    let i: usize = kani::any();
    kani::assume(inside_char(s, i));
    let _ = kstr::str_from(s, i);
    must_not_reach!("str_from returned for an index inside a character");
}
fn str_up_to_panics<const CAP: usize>() {
    sym_str!(s, CAP);
    let i: usize = kani::any();
    kani::assume(inside_char(s, i));
    let _ = kstr::str_up_to(s, i);
    must_not_reach!("str_up_to returned for an index inside a character");
}
fn str_range_panics<const CAP: usize>() {
    sym_str!(s, CAP);
    let i: usize = kani::any();
    let j: usize = kani::any();
    kani::assume(inside_char(s, i) || inside_char(s, j));
    let _ = kstr::str_range(s, i, j);
    must_not_reach!("str_range returned for an index inside a character");
}
fn split_at_panics<const CAP: usize>() {
    sym_str!(s, CAP);
    let i: usize = kani::any();
    kani::assume(inside_char(s, i));
    let _ = kstr::split_at(s, i);
    must_not_reach!("split_at returned for an index inside a character");
}

tiers! { boundary_predicate: unwind(7, 9), boundary_predicate::<5>(), boundary_predicate::<7>(),
    calls("konst::string::is_char_boundary"),
    bounds("all valid UTF-8 strings <=5 bytes, index: all usize", "<=7 bytes, index: all usize") }
tiers! { fallible_getters: unwind(7, 9), fallible_getters::<5>(), fallible_getters::<7>(),
    calls("konst::string::get_from", "konst::string::get_up_to", "konst::string::get_range"),
    bounds("all valid UTF-8 strings <=5 bytes, indices: all usize", "<=7 bytes") }
tiers! { clamping_ok: unwind(7, 9), clamping_ok::<5>(), clamping_ok::<7>(),
    calls("konst::string::str_from", "konst::string::str_up_to", "konst::string::str_range", "konst::string::split_at"),
    bounds("all valid UTF-8 strings <=5 bytes, indices: all usize not inside a character", "<=7 bytes") }
tiers! {
    #[kani::should_panic]
    #[kani::stub(core::str::from_utf8, crate::c03::from_utf8_stub)]
    str_from_panics: unwind(40, 40), str_from_panics::<5>(), str_from_panics::<7>(),
    calls("konst::string::str_from"),
    bounds("all valid UTF-8 strings <=5 bytes, every in-range index inside a character", "<=7 bytes"),
    panics_in("basic_panic", "non_char_boundary_panic") }
tiers! {
    #[kani::should_panic]
    #[kani::stub(core::str::from_utf8, crate::c03::from_utf8_stub)]
    str_up_to_panics: unwind(40, 40), str_up_to_panics::<5>(), str_up_to_panics::<7>(),
    calls("konst::string::str_up_to"),
    bounds("all valid UTF-8 strings <=5 bytes, every in-range index inside a character", "<=7 bytes"),
    panics_in("basic_panic", "non_char_boundary_panic") }
tiers! {
    #[kani::should_panic]
    #[kani::stub(core::str::from_utf8, crate::c03::from_utf8_stub)]
    str_range_panics: unwind(40, 40), str_range_panics::<5>(), str_range_panics::<7>(),
    calls("konst::string::str_range"),
    bounds("all valid UTF-8 strings <=5 bytes, every index pair with one in-range index inside a character", "<=7 bytes"),
    panics_in("basic_panic", "non_char_boundary_panic") }
tiers! {
    #[kani::should_panic]
    #[kani::stub(core::str::from_utf8, crate::c03::from_utf8_stub)]
    split_at_panics: unwind(40, 40), split_at_panics::<5>(), split_at_panics::<7>(),
    calls("konst::string::split_at"),
    bounds("all valid UTF-8 strings <=5 bytes, every in-range index inside a character", "<=7 bytes"),
    panics_in("basic_panic", "non_char_boundary_panic") }

/// Lemma for the trusted base (DESIGN 2.2): the `valid_utf8` predicate that every `sym_str!` uses
/// accepts exactly the byte strings `core::str::from_utf8` accepts.
fn lemma_utf8_predicate<const CAP: usize>() {
    sym_bytes!(b, CAP);
    assert!(valid_utf8(b) == core::str::from_utf8(b).is_ok());
    must_reach!(b.len() == CAP && valid_utf8(b) && b[0] >= 0xF0, "valid string starting with a 4-byte char");
    must_reach!(b.len() == CAP && !valid_utf8(b) && b[0] == 0xED, "rejected surrogate / truncated 3-byte sequence");
}
tiers! { lemma_utf8_predicate: unwind(8, 9), lemma_utf8_predicate::<5>(), lemma_utf8_predicate::<6>(),
    calls("harness::util::valid_utf8 (trusted base) vs core::str::from_utf8"),
    bounds("every byte string <=5 bytes", "<=6 bytes") }
