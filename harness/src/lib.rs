//! Kani harness crate for konst (rodrimati1992/konst). One cargo feature per property so that a
//! check compiles only its own harnesses; `thorough` adds the deeper-bound twins.
#![allow(unused_imports, dead_code, unused_macros, clippy::all)]

#[macro_use]
pub mod util;

#[cfg(any(feature = "c04", feature = "replay"))]
pub mod c04;

#[cfg(feature = "replay")]
#[cfg(kani)]
mod replay_active;
