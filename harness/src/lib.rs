//! Kani harness crate for konst (rodrimati1992/konst). One cargo feature per property so that a
//! check compiles only its own harnesses; `thorough` adds the deeper-bound twins.
#![allow(unused_imports, dead_code, unused_macros, clippy::all)]

#[macro_use]
pub mod util;

#[cfg(feature = "c01")]
pub mod c01;
#[cfg(feature = "c02")]
pub mod c02;
#[cfg(any(feature = "c03", feature = "c12", feature = "c13", feature = "c14", feature = "c01", feature = "c06", feature = "c18"))]
pub mod c03;
#[cfg(feature = "c04")]
pub mod c04;

#[cfg(feature = "c05")]
pub mod c05;

#[cfg(feature = "c06")]
pub mod c06;
#[cfg(feature = "c07")]
pub mod c07;

#[cfg(feature = "c08")]
pub mod c08;
#[cfg(feature = "c09")]
pub mod c09;

#[cfg(feature = "c10")]
pub mod c10;
#[cfg(feature = "c10")]
#[path = "gen/c10.rs"]
pub mod c10g;
#[cfg(feature = "c11")]
pub mod c11;
#[cfg(feature = "c12")]
pub mod c12;
#[cfg(feature = "c13")]
pub mod c13;
#[cfg(feature = "c14")]
pub mod c14;
#[cfg(feature = "c15")]
pub mod c15;
#[cfg(feature = "c15")]
#[path = "gen/c15.rs"]
pub mod c15g;
#[cfg(feature = "c16")]
pub mod c16;

#[cfg(feature = "c18")]
pub mod c18;
#[cfg(feature = "c18")]
#[path = "gen/c18.rs"]
pub mod c18g;
#[cfg(feature = "c19")]
pub mod c19;
#[cfg(feature = "c19")]
#[path = "gen/c19.rs"]
pub mod c19g;

#[cfg(feature = "c20")]
pub mod c20;
#[cfg(feature = "c20")]
#[path = "gen/c20.rs"]
pub mod c20g;

#[cfg(feature = "replay")]
#[cfg(kani)]
mod replay_active;
