//! C13 — Parser positions always describe where its remainder sits in the original string.
//!
//! One-step harnesses from an arbitrary reachable state (`sym_parser_state!`), one per operation.
//! After the step: `remainder()` is `s[start-base .. end-base]` by address and length, both offsets
//! are char boundaries of `s`; on `Err`: offset = start (front operations) / end (back operations) of
//! the parser the operation was called on, and the direction names that end. Induction over the
//! number of operations gives every history; `base_case` covers the constructors.
use crate::util::*;
use konst::parsing::{ErrorKind, ParseDirection, ParseError};
use konst::Parser;

/// the invariant of the property
fn inv(s: &str, base: usize, p: Parser<'_>) -> bool {
    let (so, eo) = (p.start_offset(), p.end_offset());
    if !(so >= base && eo >= so && eo - base <= s.len()) {
        return false;
    }
    let (x, y) = (so - base, eo - base);
    let r = p.remainder();
    s.is_char_boundary(x) && s.is_char_boundary(y) && r.len() == y - x && (r.is_empty() || r.as_ptr() == s[x..].as_ptr())
}

fn err_front(e: &ParseError<'_>, base: usize, a: usize, kind: ErrorKind) -> bool {
    e.offset() == base + a && e.error_direction() == ParseDirection::FromStart && e.kind() == kind
}
fn err_back(e: &ParseError<'_>, base: usize, b: usize, kind: ErrorKind) -> bool {
    e.offset() == base + b && e.error_direction() == ParseDirection::FromEnd && e.kind() == kind
}

fn base_case<const CAP: usize>() {
    sym_str!(s, CAP);
    let p = Parser::new(s);
    assert!(inv(s, 0, p) && p.start_offset() == 0 && p.end_offset() == s.len());
    assert!(p.parse_direction() == ParseDirection::FromStart);
    let base: usize = kani::any();
    kani::assume(base <= 1 << 30);
    let q = Parser::with_start_offset(s, base);
    assert!(inv(s, base, q) && q.start_offset() == base && q.end_offset() == base + s.len());
    // a fresh parser is not "split-exhausted"
    assert!(q.split('x').is_ok());
    must_reach!(s.len() == CAP, "full-length string");
}

macro_rules! infallible_op {
    ($name:ident, $dir:expr, |$p:ident, $pat:ident, $c:ident| $call:expr, $which:literal) => {
        fn $name<const CAP: usize, const N: usize>() {
            sym_parser_state!(s, $p, a, b, base, flag, CAP);
            sym_str!($pat, N);
            let $c: char = kani::any();
            let use_char: bool = kani::any();
            let _ = use_char;
            let q = $call(use_char);
            assert!(inv(s, base, q));
            assert!(q.parse_direction() == $dir);
            // narrowing only: the new window lies inside the old one
            assert!(q.start_offset() >= base + a && q.end_offset() <= base + b);
            must_reach!(q.start_offset() > base + a && q.end_offset() < base + b || $which != "both", "removed from both ends");
            must_reach!(q.remainder().len() < b - a && a > 0, "something removed from a window that does not start at 0");
            must_reach!(q.remainder().len() == b - a && b - a == CAP, "nothing removed from a full window");
        }
    };
}

infallible_op!(op_trim, ParseDirection::FromBoth, |p, pat, c| |_u: bool| p.trim(), "both");
infallible_op!(op_trim_start, ParseDirection::FromStart, |p, pat, c| |_u: bool| p.trim_start(), "start");
infallible_op!(op_trim_end, ParseDirection::FromEnd, |p, pat, c| |_u: bool| p.trim_end(), "end");
infallible_op!(op_trim_matches, ParseDirection::FromBoth, |p, pat, c| |u: bool| if u { p.trim_matches(c) } else { p.trim_matches(pat) }, "both");
infallible_op!(op_trim_start_matches, ParseDirection::FromStart, |p, pat, c| |u: bool| if u { p.trim_start_matches(c) } else { p.trim_start_matches(pat) }, "start");
infallible_op!(op_trim_end_matches, ParseDirection::FromEnd, |p, pat, c| |u: bool| if u { p.trim_end_matches(c) } else { p.trim_end_matches(pat) }, "end");

fn op_skip<const CAP: usize>() {
    sym_parser_state!(s, p, a, b, base, flag, CAP);
    sym_parser_dir!(s, p, a, b);
    let n: usize = kani::any();
    let q = p.skip(n);
    assert!(inv(s, base, q) && q.parse_direction() == ParseDirection::FromStart);
    assert!(q.end_offset() == base + b && q.start_offset() >= base + a);
    // skips at least n bytes (rounded up to a char boundary), or everything
    assert!(q.start_offset() - (base + a) >= if n < b - a { n } else { b - a });
    must_reach!(n > 0 && n < b - a && q.start_offset() - (base + a) > n, "rounded up to the next boundary");
    must_reach!(n == usize::MAX, "skip(usize::MAX)");
    must_reach!(n == 0 && p.parse_direction() == ParseDirection::FromEnd && b > a, "skip(0) on a from-end parser");
}
fn op_skip_back<const CAP: usize>() {
    sym_parser_state!(s, p, a, b, base, flag, CAP);
    sym_parser_dir!(s, p, a, b);
    let n: usize = kani::any();
    let q = p.skip_back(n);
    assert!(inv(s, base, q) && q.parse_direction() == ParseDirection::FromEnd);
    assert!(q.start_offset() == base + a && q.end_offset() <= base + b);
    assert!((base + b) - q.end_offset() >= if n < b - a { n } else { b - a });
    must_reach!(n > 0 && n < b - a && (base + b) - q.end_offset() > n, "rounded down to the previous boundary");
    must_reach!(n == usize::MAX, "skip_back(usize::MAX)");
    must_reach!(n == 0 && p.parse_direction() == ParseDirection::FromStart && b > a, "skip_back(0) on a from-start parser");
}

macro_rules! fallible_op {
    ($name:ident, $front:literal, $kind:expr, |$p:ident, $pat:ident, $c:ident| $call:expr) => {
        fn $name<const CAP: usize, const N: usize>() {
            sym_parser_state!(s, $p, a, b, base, flag, CAP);
            sym_str!($pat, N);
            let $c: char = kani::any();
            let use_char: bool = kani::any();
            let r: Result<Parser<'_>, ParseError<'_>> = $call(use_char);
            match &r {
                &Ok(q) => {
                    assert!(inv(s, base, q));
                    assert!(q.parse_direction() == if $front { ParseDirection::FromStart } else { ParseDirection::FromEnd });
                    if $front {
                        assert!(q.end_offset() == base + b && q.start_offset() >= base + a);
                    } else {
                        assert!(q.start_offset() == base + a && q.end_offset() <= base + b);
                    }
                }
                Err(e) => {
                    if $front {
                        assert!(err_front(e, base, a, $kind));
                    } else {
                        assert!(err_back(e, base, b, $kind));
                    }
                }
            }
            must_reach!(r.is_ok() && a > 0 && b < s.len(), "success on an interior window");
            must_reach!(r.is_err() && a > 0 && b < s.len() && b > a, "failure on a non-empty interior window");
        }
    };
}

fallible_op!(op_strip_prefix, true, ErrorKind::Strip, |p, pat, c| |u: bool| if u { p.strip_prefix(c) } else { p.strip_prefix(pat) });
fallible_op!(op_strip_suffix, false, ErrorKind::Strip, |p, pat, c| |u: bool| if u { p.strip_suffix(c) } else { p.strip_suffix(pat) });
fallible_op!(op_find_skip, true, ErrorKind::Find, |p, pat, c| |u: bool| if u { p.find_skip(c) } else { p.find_skip(pat) });
fallible_op!(op_rfind_skip, false, ErrorKind::Find, |p, pat, c| |u: bool| if u { p.rfind_skip(c) } else { p.rfind_skip(pat) });

/// split family: returns (piece, parser); the piece must lie inside the old window as well
macro_rules! split_op {
    ($name:ident, $front:literal, |$p:ident, $pat:ident, $c:ident| $call:expr) => {
        fn $name<const CAP: usize, const N: usize>() {
            sym_parser_state!(s, $p, a, b, base, flag, CAP);
            sym_str!($pat, N);
            let $c: char = kani::any();
            let use_char: bool = kani::any();
            let r: Result<(&str, Parser<'_>), ParseError<'_>> = $call(use_char);
            match &r {
                &Ok((piece, q)) => {
                    assert!(inv(s, base, q));
                    assert!(q.parse_direction() == if $front { ParseDirection::FromStart } else { ParseDirection::FromEnd });
                    assert!(str_inside(&s[a..b], piece));
                    if $front {
                        assert!(q.end_offset() == base + b && q.start_offset() >= base + a);
                        // the piece starts where the old window started
                        assert!(piece.is_empty() || piece.as_ptr() == s[a..].as_ptr());
                    } else {
                        assert!(q.start_offset() == base + a && q.end_offset() <= base + b);
                        assert!(piece.is_empty() || off_in(s.as_bytes(), piece.as_bytes()) + piece.len() == b);
                    }
                }
                Err(e) => {
                    let k = e.kind();
                    assert!(k == ErrorKind::SplitExhausted || k == ErrorKind::DelimiterNotFound);
                    assert!((k == ErrorKind::SplitExhausted) == flag);
                    if $front {
                        assert!(err_front(e, base, a, k));
                    } else {
                        assert!(err_back(e, base, b, k));
                    }
                }
            }
            must_reach!(r.is_ok() && a > 0 && b < s.len() && !flag, "piece from an interior window");
            must_reach!(r.is_err() && flag, "split-exhausted state");
        }
    };
}

split_op!(op_split, true, |p, pat, c| |u: bool| if u { p.split(c) } else { p.split(pat) });
split_op!(op_rsplit, false, |p, pat, c| |u: bool| if u { p.rsplit(c) } else { p.rsplit(pat) });
split_op!(op_split_keep, true, |p, pat, c| |u: bool| if u { p.split_keep(c) } else { p.split_keep(pat) });
split_op!(op_split_terminator, true, |p, pat, c| |u: bool| if u { p.split_terminator(c) } else { p.split_terminator(pat) });
split_op!(op_rsplit_terminator, false, |p, pat, c| |u: bool| if u { p.rsplit_terminator(c) } else { p.rsplit_terminator(pat) });

macro_rules! parse_op {
    ($name:ident, $f:ident, $kind:expr) => {
        fn $name<const CAP: usize>() {
            sym_parser_state!(s, p, a, b, base, flag, CAP);
            match p.$f() {
                Ok((_, q)) => {
                    assert!(inv(s, base, q) && q.parse_direction() == ParseDirection::FromStart);
                    assert!(q.end_offset() == base + b && q.start_offset() > base + a);
                }
                Err(e) => assert!(err_front(&e, base, a, $kind)),
            }
            must_reach!(a > 0 && b < s.len() && p.$f().is_ok(), "value parsed from an interior window");
            must_reach!(a > 0 && b > a && p.$f().is_err(), "failure on a non-empty interior window");
        }
    };
}
parse_op!(op_parse_u8, parse_u8, ErrorKind::ParseInteger);
parse_op!(op_parse_i16, parse_i16, ErrorKind::ParseInteger);
parse_op!(op_parse_u64, parse_u64, ErrorKind::ParseInteger);
parse_op!(op_parse_bool, parse_bool, ErrorKind::ParseBool);

fn op_into_error<const CAP: usize>() {
    sym_parser_state!(s, p, a, b, base, flag, CAP);
    sym_parser_dir!(s, p, a, b);
    static MSG: &str = "m";
    let e1 = p.into_error(ErrorKind::Find);
    let e2 = p.into_other_error(&MSG);
    let want = match p.parse_direction() {
        ParseDirection::FromEnd => base + b,
        _ => base + a,
    };
    assert!(e1.offset() == want && e1.error_direction() == p.parse_direction() && e1.kind() == ErrorKind::Find);
    assert!(e2.offset() == want && e2.error_direction() == p.parse_direction() && e2.kind() == ErrorKind::Other);
    must_reach!(p.parse_direction() == ParseDirection::FromEnd && b > a, "from-end parser");
    must_reach!(p.parse_direction() == ParseDirection::FromBoth && b > a, "from-both parser");
}

tiers! { base_case: unwind(9, 10), base_case::<4>(), base_case::<6>(), calls("konst::Parser::new", "konst::Parser::with_start_offset"),
    bounds("original string <=4 bytes valid UTF-8, every window on char boundaries, base <= 2^30", "string <=6") }
tiers! { trim: unwind(9, 10), op_trim::<4, 2>(), op_trim::<6, 3>(), calls("konst::Parser::trim", "konst::Parser::with_start_offset", "konst::Parser::{remainder,start_offset,end_offset,parse_direction}"),
    bounds("original string <=4 bytes valid UTF-8, every window on char boundaries, base <= 2^30, str pattern <=2 bytes or any char", "string <=6, pattern <=3") }
tiers! { trim_start: unwind(9, 10), op_trim_start::<4, 2>(), op_trim_start::<6, 3>(), calls("konst::Parser::trim_start", "konst::Parser::with_start_offset", "konst::Parser::{remainder,start_offset,end_offset,parse_direction}"),
    bounds("original string <=4 bytes valid UTF-8, every window on char boundaries, base <= 2^30, str pattern <=2 bytes or any char", "string <=6, pattern <=3") }
tiers! { trim_end: unwind(9, 10), op_trim_end::<4, 2>(), op_trim_end::<6, 3>(), calls("konst::Parser::trim_end", "konst::Parser::with_start_offset", "konst::Parser::{remainder,start_offset,end_offset,parse_direction}"),
    bounds("original string <=4 bytes valid UTF-8, every window on char boundaries, base <= 2^30, str pattern <=2 bytes or any char", "string <=6, pattern <=3") }
tiers! { trim_matches: unwind(9, 10), op_trim_matches::<4, 2>(), op_trim_matches::<6, 3>(), calls("konst::Parser::trim_matches", "konst::Parser::with_start_offset", "konst::Parser::{remainder,start_offset,end_offset,parse_direction}"),
    bounds("original string <=4 bytes valid UTF-8, every window on char boundaries, base <= 2^30, str pattern <=2 bytes or any char", "string <=6, pattern <=3") }
tiers! { trim_start_matches: unwind(9, 10), op_trim_start_matches::<4, 2>(), op_trim_start_matches::<6, 3>(), calls("konst::Parser::trim_start_matches", "konst::Parser::with_start_offset", "konst::Parser::{remainder,start_offset,end_offset,parse_direction}"),
    bounds("original string <=4 bytes valid UTF-8, every window on char boundaries, base <= 2^30, str pattern <=2 bytes or any char", "string <=6, pattern <=3") }
tiers! { trim_end_matches: unwind(9, 10), op_trim_end_matches::<4, 2>(), op_trim_end_matches::<6, 3>(), calls("konst::Parser::trim_end_matches", "konst::Parser::with_start_offset", "konst::Parser::{remainder,start_offset,end_offset,parse_direction}"),
    bounds("original string <=4 bytes valid UTF-8, every window on char boundaries, base <= 2^30, str pattern <=2 bytes or any char", "string <=6, pattern <=3") }
tiers! { skip: unwind(9, 10), op_skip::<4>(), op_skip::<6>(), calls("konst::Parser::skip", "konst::Parser::with_start_offset"),
    bounds("original string <=4 bytes valid UTF-8, every window on char boundaries, base <= 2^30", "string <=6") }
tiers! { skip_back: unwind(9, 10), op_skip_back::<4>(), op_skip_back::<6>(), calls("konst::Parser::skip_back", "konst::Parser::with_start_offset"),
    bounds("original string <=4 bytes valid UTF-8, every window on char boundaries, base <= 2^30", "string <=6") }
tiers! { strip_prefix: unwind(9, 10), op_strip_prefix::<4, 2>(), op_strip_prefix::<6, 3>(), calls("konst::Parser::strip_prefix", "konst::Parser::with_start_offset", "konst::Parser::{remainder,start_offset,end_offset,parse_direction}"),
    bounds("original string <=4 bytes valid UTF-8, every window on char boundaries, base <= 2^30, str pattern <=2 bytes or any char", "string <=6, pattern <=3") }
tiers! { strip_suffix: unwind(9, 10), op_strip_suffix::<4, 2>(), op_strip_suffix::<6, 3>(), calls("konst::Parser::strip_suffix", "konst::Parser::with_start_offset", "konst::Parser::{remainder,start_offset,end_offset,parse_direction}"),
    bounds("original string <=4 bytes valid UTF-8, every window on char boundaries, base <= 2^30, str pattern <=2 bytes or any char", "string <=6, pattern <=3") }
tiers! { find_skip: unwind(9, 10), op_find_skip::<4, 2>(), op_find_skip::<6, 3>(), calls("konst::Parser::find_skip", "konst::Parser::with_start_offset", "konst::Parser::{remainder,start_offset,end_offset,parse_direction}"),
    bounds("original string <=4 bytes valid UTF-8, every window on char boundaries, base <= 2^30, str pattern <=2 bytes or any char", "string <=6, pattern <=3") }
tiers! { rfind_skip: unwind(9, 10), op_rfind_skip::<4, 2>(), op_rfind_skip::<6, 3>(), calls("konst::Parser::rfind_skip", "konst::Parser::with_start_offset", "konst::Parser::{remainder,start_offset,end_offset,parse_direction}"),
    bounds("original string <=4 bytes valid UTF-8, every window on char boundaries, base <= 2^30, str pattern <=2 bytes or any char", "string <=6, pattern <=3") }
tiers! { split: unwind(9, 10), op_split::<4, 2>(), op_split::<6, 3>(), calls("konst::Parser::split", "konst::Parser::with_start_offset", "konst::Parser::{remainder,start_offset,end_offset,parse_direction}"),
    bounds("original string <=4 bytes valid UTF-8, every window on char boundaries, base <= 2^30, str pattern <=2 bytes or any char", "string <=6, pattern <=3") }
tiers! { rsplit: unwind(9, 10), op_rsplit::<4, 2>(), op_rsplit::<6, 3>(), calls("konst::Parser::rsplit", "konst::Parser::with_start_offset", "konst::Parser::{remainder,start_offset,end_offset,parse_direction}"),
    bounds("original string <=4 bytes valid UTF-8, every window on char boundaries, base <= 2^30, str pattern <=2 bytes or any char", "string <=6, pattern <=3") }
tiers! { split_keep: unwind(9, 10), op_split_keep::<4, 2>(), op_split_keep::<6, 3>(), calls("konst::Parser::split_keep", "konst::Parser::with_start_offset", "konst::Parser::{remainder,start_offset,end_offset,parse_direction}"),
    bounds("original string <=4 bytes valid UTF-8, every window on char boundaries, base <= 2^30, str pattern <=2 bytes or any char", "string <=6, pattern <=3") }
tiers! { split_terminator: unwind(9, 10), op_split_terminator::<4, 2>(), op_split_terminator::<6, 3>(), calls("konst::Parser::split_terminator", "konst::Parser::with_start_offset", "konst::Parser::{remainder,start_offset,end_offset,parse_direction}"),
    bounds("original string <=4 bytes valid UTF-8, every window on char boundaries, base <= 2^30, str pattern <=2 bytes or any char", "string <=6, pattern <=3") }
tiers! { rsplit_terminator: unwind(9, 10), op_rsplit_terminator::<4, 2>(), op_rsplit_terminator::<6, 3>(), calls("konst::Parser::rsplit_terminator", "konst::Parser::with_start_offset", "konst::Parser::{remainder,start_offset,end_offset,parse_direction}"),
    bounds("original string <=4 bytes valid UTF-8, every window on char boundaries, base <= 2^30, str pattern <=2 bytes or any char", "string <=6, pattern <=3") }
tiers! { parse_u8: unwind(9, 10), op_parse_u8::<4>(), op_parse_u8::<6>(), calls("konst::Parser::parse_u8", "konst::Parser::with_start_offset"),
    bounds("original string <=4 bytes valid UTF-8, every window on char boundaries, base <= 2^30", "string <=6") }
tiers! { parse_i16: unwind(9, 10), op_parse_i16::<4>(), op_parse_i16::<6>(), calls("konst::Parser::parse_i16", "konst::Parser::with_start_offset"),
    bounds("original string <=4 bytes valid UTF-8, every window on char boundaries, base <= 2^30", "string <=6") }
tiers! { parse_u64: unwind(9, 10), op_parse_u64::<4>(), op_parse_u64::<6>(), calls("konst::Parser::parse_u64", "konst::Parser::with_start_offset"),
    bounds("original string <=4 bytes valid UTF-8, every window on char boundaries, base <= 2^30", "string <=6") }
tiers! { parse_bool: unwind(9, 10), op_parse_bool::<6>(), op_parse_bool::<7>(), calls("konst::Parser::parse_bool", "konst::Parser::with_start_offset"),
    bounds("original string <=4 bytes valid UTF-8, every window on char boundaries, base <= 2^30", "string <=6") }
tiers! { into_error: unwind(9, 10), op_into_error::<4>(), op_into_error::<6>(), calls("konst::Parser::into_error", "konst::Parser::with_start_offset"),
    bounds("original string <=4 bytes valid UTF-8, every window on char boundaries, base <= 2^30", "string <=6") }
