//! C20 — concatenation/join macros and CStr conversions equal their std counterparts.
//!
//! `str_concat!`, `str_join!`, `slice_concat!` evaluate inside `const` items, so the solver is applied
//! to the two phases they are made of (ordinary `pub const fn`s of konst_kernel): the length pass
//! and the `<N>` fill pass, on symbolic pieces/separators. The 5-line const glue of each macro is
//! only exercised on constants (generated program family gen/c20.py: compiled by rustc, then
//! compared with an expected string computed by the generator; concrete, not solver coverage).
use crate::util::*;
use core::ffi::CStr;
use konst_kernel::string::{self as kks, StrJoinArgs, __ElemDispatch, __MakeSepArg, __NormalizeConcatArg, __StrConcatArg};

unsafe fn st<'a>(s: &'a str) -> &'static str {
    core::mem::transmute::<&'a str, &'static str>(s)
}

/// byte `k` of the concatenation of `pieces` with `sep` between them
fn expected_byte(pieces: &[&[u8]], sep: &[u8], mut k: usize) -> u8 {
    let mut i = 0;
    while i < pieces.len() {
        if i > 0 {
            if k < sep.len() {
                return sep[k];
            }
            k -= sep.len();
        }
        if k < pieces[i].len() {
            return pieces[i][k];
        }
        k -= pieces[i].len();
        i += 1;
    }
    0
}

fn check_concat<const N: usize>(arg: __StrConcatArg, pieces: &[&[u8]]) {
    let out = kks::concat_strs::<N>(arg);
    let s = out.as_str();
    assert!(s.len() == N);
    let b = s.as_bytes();
    let mut k = 0;
    while k < N {
        assert!(b[k] == expected_byte(pieces, &[], k));
        k += 1;
    }
}

fn concat_strs<const N: usize>() {
    sym_str!(p0, 2);
    sym_str!(p1, 2);
    sym_str!(p2, 2);
    let n: usize = kani::any();
    kani::assume(n <= 3);
    let all: [&'static str; 3] = unsafe { [st(p0), st(p1), st(p2)] };
    let slice: &'static [&'static str] = unsafe { core::mem::transmute::<&[&'static str], &'static [&'static str]>(&all[..n]) };
    let arg = __NormalizeConcatArg(slice).conv();
    let total = kks::concat_sum_lengths(arg);
    let bytes: [&[u8]; 3] = [p0.as_bytes(), p1.as_bytes(), p2.as_bytes()];
    let mut want = 0;
    let mut i = 0;
    while i < n {
        want += bytes[i].len();
        i += 1;
    }
    assert!(total == want);
    kani::assume(total == N);
    check_concat::<N>(arg, &bytes[..n]);
    must_reach!(n == 3, "three pieces");
    must_reach!(n == 3 && p1.is_empty() || N < 1 || N > 4, "empty middle piece (where N allows it)");
    must_reach!(n < 3 || N == 6, "fewer than three pieces (where N allows it)");
}

fn concat_chars<const N: usize>() {
    let cs: [char; 3] = kani::any();
    let n: usize = kani::any();
    kani::assume(n <= 3);
    let slice: &'static [char] = unsafe { core::mem::transmute::<&[char], &'static [char]>(&cs[..n]) };
    let arg = __NormalizeConcatArg(slice).conv();
    let total = kks::concat_sum_lengths(arg);
    // (three separate buffers: Kani 0.68 mis-models an array of sub-slices of a nested array)
    let (mut b0, mut b1, mut b2) = ([0u8; 4], [0u8; 4], [0u8; 4]);
    let lens = [cs[0].encode_utf8(&mut b0).len(), cs[1].encode_utf8(&mut b1).len(), cs[2].encode_utf8(&mut b2).len()];
    let bytes: [&[u8]; 3] = [&b0[..lens[0]], &b1[..lens[1]], &b2[..lens[2]]];
    let mut want = 0;
    let mut i = 0;
    while i < n {
        want += lens[i];
        i += 1;
    }
    assert!(total == want);
    kani::assume(total == N);
    check_concat::<N>(arg, &bytes[..n]);
    must_reach!(n >= 1 || N == 0, "at least one char");
    must_reach!(n >= 2 && lens[0] != lens[1] || N < 3, "chars of different encoded lengths (where N allows it)");
}

fn check_join<const N: usize>(args: StrJoinArgs, pieces: &[&[u8]], sep: &[u8]) {
    let out = kks::join_strs::<N>(args);
    let s = out.as_str();
    assert!(s.len() == N);
    let b = s.as_bytes();
    let mut k = 0;
    while k < N {
        assert!(b[k] == expected_byte(pieces, sep, k));
        k += 1;
    }
}

fn join_strs<const CHAR_SEP: bool, const N: usize>() {
    sym_str!(p0, 1);
    sym_str!(p1, 1);
    sym_str!(p2, 1);
    sym_str!(sep_s, 2);
    let sep_c: char = kani::any();
    let n: usize = kani::any();
    kani::assume(n <= 3);
    let all: [&'static str; 3] = unsafe { [st(p0), st(p1), st(p2)] };
    let slice: &'static [&'static str] = unsafe { core::mem::transmute::<&[&'static str], &'static [&'static str]>(&all[..n]) };
    let mut cbuf = [0u8; 4];
    let (sep_arg, sep_bytes): (_, &[u8]) = if CHAR_SEP {
        (__MakeSepArg(sep_c).conv(), sep_c.encode_utf8(&mut cbuf).as_bytes())
    } else {
        (__MakeSepArg(unsafe { st(sep_s) }).conv(), sep_s.as_bytes())
    };
    let args = StrJoinArgs { sep: sep_arg, slice };
    let total = kks::join_sum_lengths(args);
    let bytes: [&[u8]; 3] = [p0.as_bytes(), p1.as_bytes(), p2.as_bytes()];
    let mut want = 0;
    let mut i = 0;
    while i < n {
        want += bytes[i].len() + if i > 0 { sep_bytes.len() } else { 0 };
        i += 1;
    }
    assert!(total == want);
    kani::assume(total == N);
    check_join::<N>(args, &bytes[..n], sep_bytes);
    must_reach!(n == 3 || N == 0, "three pieces (N > 0)");
    must_reach!(n == 3 && p0.is_empty() && p1.is_empty() && p2.is_empty() || N == 0 || N % 2 == 1 || N > 4, "only separators (where N allows it)");
    must_reach!(n <= 1 || N > 1, "single piece or empty list: no separator (N <= 1)");
}

fn elem_dispatch() {
    let c: char = kani::any();
    let mut buf = [0u8; 4];
    let want = c.encode_utf8(&mut buf).as_bytes();
    assert!(__ElemDispatch(c).len() == want.len());
    assert!(__ElemDispatch(&c).len() == want.len());
    let e = __ElemDispatch(c).as_bytesable();
    let e2 = __ElemDispatch(&c).as_bytesable();
    let (b, b2) = (e.as_bytes(), e2.as_bytes());
    assert!(b.len() == want.len() && b2.len() == want.len());
    let mut i = 0;
    while i < want.len() {
        assert!(b[i] == want[i] && b2[i] == want[i]);
        i += 1;
    }
    sym_str!(s, 4);
    let ss = unsafe { st(s) };
    assert!(__ElemDispatch(ss).len() == s.len() && __ElemDispatch(&ss).len() == s.len());
    assert!(__ElemDispatch(ss).as_bytesable().as_ptr() == s.as_ptr());
    must_reach!(want.len() == 3 && s.len() == 4, "3-byte char, 4-byte str");
}

fn check_slice_concat<const N: usize>(slices: &[&[u16]]) {
    let out: [u16; N] = konst_kernel::slice::concat_slices::<u16, N>(slices);
    let mut k = 0;
    let mut si = 0;
    let mut j = 0;
    while k < N {
        while j == slices[si].len() {
            si += 1;
            j = 0;
        }
        assert!(out[k] == slices[si][j]);
        j += 1;
        k += 1;
    }
}

fn slice_concat<const N: usize>() {
    sym_slice!(a, u16, 2);
    sym_slice!(b, u16, 2);
    sym_slice!(c, u16, 1);
    let n: usize = kani::any();
    kani::assume(n <= 3);
    let all = [a, b, c];
    let slices = &all[..n];
    let total = konst_kernel::slice::concat_sum_lengths(slices);
    let mut want = 0;
    let mut i = 0;
    while i < n {
        want += all[i].len();
        i += 1;
    }
    assert!(total == want);
    kani::assume(total == N);
    check_slice_concat::<N>(slices);
    must_reach!(n == 3, "three slices");
    must_reach!(n == 3 && a.is_empty() || N == 5, "empty first slice (where N allows it)");
}

// ------------------------------------------------------------------ CStr

fn cstr_constructors<const CAP: usize>() {
    sym_bytes!(b, CAP);
    let ku = konst::ffi::cstr::from_bytes_until_nul(b);
    let su = CStr::from_bytes_until_nul(b);
    match (&ku, &su) {
        (Ok(k), Ok(s)) => {
            // equal CStr: same start, same length (incl. nul)
            assert!(k.as_ptr() == s.as_ptr() && k.count_bytes() == s.count_bytes());
            assert!(k.as_ptr() as *const u8 == b.as_ptr());
        }
        (Err(_), Err(_)) => {}
        _ => assert!(false),
    }
    let kw = konst::ffi::cstr::from_bytes_with_nul(b);
    let sw = CStr::from_bytes_with_nul(b);
    match (&kw, &sw) {
        (Ok(k), Ok(s)) => {
            assert!(k.as_ptr() == s.as_ptr() && k.count_bytes() == s.count_bytes());
            assert!(k.count_bytes() + 1 == b.len());
        }
        (Err(_), Err(_)) => {}
        _ => assert!(false),
    }
    must_reach!(ku.is_ok() && kw.is_err() && b.len() == CAP, "nul in the middle");
    must_reach!(kw.is_ok() && b.len() == CAP, "nul only at the end");
    must_reach!(ku.is_err() && b.len() == CAP, "no nul");
    must_reach!(b.is_empty(), "empty input");
}

fn cstr_conversions<const CAP: usize>() {
    sym_bytes!(b, CAP);
    let c = match CStr::from_bytes_until_nul(b) {
        Ok(c) => c,
        Err(_) => return,
    };
    let kb = konst::ffi::cstr::to_bytes_with_nul(c);
    let n = c.count_bytes();
    assert!(kb.len() == n + 1 && kb.as_ptr() == b.as_ptr() && kb[n] == 0);
    let kt = konst::ffi::cstr::to_bytes(c);
    assert!(kt.len() == n && (n == 0 || kt.as_ptr() == b.as_ptr()));
    match konst::ffi::cstr::to_str(c) {
        Ok(s) => assert!(valid_utf8(&b[..n]) && s.len() == n && (n == 0 || s.as_ptr() == b.as_ptr())),
        Err(_) => assert!(!valid_utf8(&b[..n])),
    }
    must_reach!(n == CAP - 1 && valid_utf8(&b[..n]) && b[0] >= 0x80, "full-length non-ASCII UTF-8 C string");
    must_reach!(n == 2 && !valid_utf8(&b[..n]), "invalid UTF-8 C string");
    must_reach!(n == 0, "empty C string");
}

tiers! { concat_strs_0: unwind(9, 9), concat_strs::<0>(), concat_strs::<0>(),
    calls("konst_kernel::string::concat_sum_lengths", "konst_kernel::string::concat_strs::<0>", "konst_kernel::string::ArrayStr::as_str", "__NormalizeConcatArg::<&str>::conv"),
    bounds("0..=3 pieces, each any valid UTF-8 string <=2 bytes, total length 0", "same") }
tiers! { concat_strs_1: unwind(9, 9), concat_strs::<1>(), concat_strs::<1>(),
    calls("konst_kernel::string::concat_sum_lengths", "konst_kernel::string::concat_strs::<1>", "konst_kernel::string::ArrayStr::as_str", "__NormalizeConcatArg::<&str>::conv"),
    bounds("0..=3 pieces, each any valid UTF-8 string <=2 bytes, total length 1", "same") }
tiers! { concat_strs_3: unwind(9, 9), concat_strs::<3>(), concat_strs::<3>(),
    calls("konst_kernel::string::concat_sum_lengths", "konst_kernel::string::concat_strs::<3>", "konst_kernel::string::ArrayStr::as_str", "__NormalizeConcatArg::<&str>::conv"),
    bounds("0..=3 pieces, each any valid UTF-8 string <=2 bytes, total length 3", "same") }
tiers! { concat_strs_4: unwind(9, 9), concat_strs::<4>(), concat_strs::<4>(),
    calls("konst_kernel::string::concat_sum_lengths", "konst_kernel::string::concat_strs::<4>", "konst_kernel::string::ArrayStr::as_str", "__NormalizeConcatArg::<&str>::conv"),
    bounds("0..=3 pieces, each any valid UTF-8 string <=2 bytes, total length 4", "same") }
tiers! { concat_strs_6: unwind(9, 9), concat_strs::<6>(), concat_strs::<6>(),
    calls("konst_kernel::string::concat_sum_lengths", "konst_kernel::string::concat_strs::<6>", "konst_kernel::string::ArrayStr::as_str", "__NormalizeConcatArg::<&str>::conv"),
    bounds("0..=3 pieces, each any valid UTF-8 string <=2 bytes, total length 6", "same") }
tiers! { concat_chars_0: unwind(11, 11), concat_chars::<0>(), concat_chars::<0>(),
    calls("konst_kernel::string::concat_sum_lengths", "konst_kernel::string::concat_strs::<0>", "__NormalizeConcatArg::<char>::conv", "__ElemDispatch::<char>"),
    bounds("0..=3 pieces, each any char, total encoded length 0", "same") }
tiers! { concat_chars_2: unwind(11, 11), concat_chars::<2>(), concat_chars::<2>(),
    calls("konst_kernel::string::concat_sum_lengths", "konst_kernel::string::concat_strs::<2>", "__NormalizeConcatArg::<char>::conv", "__ElemDispatch::<char>"),
    bounds("0..=3 pieces, each any char, total encoded length 2", "same") }
tiers! { concat_chars_5: unwind(11, 11), concat_chars::<5>(), concat_chars::<5>(),
    calls("konst_kernel::string::concat_sum_lengths", "konst_kernel::string::concat_strs::<5>", "__NormalizeConcatArg::<char>::conv", "__ElemDispatch::<char>"),
    bounds("0..=3 pieces, each any char, total encoded length 5", "same") }
tiers! { concat_chars_8: unwind(11, 11), concat_chars::<8>(), concat_chars::<8>(),
    calls("konst_kernel::string::concat_sum_lengths", "konst_kernel::string::concat_strs::<8>", "__NormalizeConcatArg::<char>::conv", "__ElemDispatch::<char>"),
    bounds("0..=3 pieces, each any char, total encoded length 8", "same") }
tiers! { join_str_sep_0: unwind(10, 10), join_strs::<false, 0>(), join_strs::<false, 0>(),
    calls("konst_kernel::string::join_sum_lengths", "konst_kernel::string::join_strs::<0>", "__MakeSepArg::<&str>::conv"),
    bounds("0..=3 pieces of <=1 byte, any str separator (str: <=2 bytes), total length 0", "same") }
tiers! { join_str_sep_2: unwind(10, 10), join_strs::<false, 2>(), join_strs::<false, 2>(),
    calls("konst_kernel::string::join_sum_lengths", "konst_kernel::string::join_strs::<2>", "__MakeSepArg::<&str>::conv"),
    bounds("0..=3 pieces of <=1 byte, any str separator (str: <=2 bytes), total length 2", "same") }
tiers! { join_str_sep_5: unwind(10, 10), join_strs::<false, 5>(), join_strs::<false, 5>(),
    calls("konst_kernel::string::join_sum_lengths", "konst_kernel::string::join_strs::<5>", "__MakeSepArg::<&str>::conv"),
    bounds("0..=3 pieces of <=1 byte, any str separator (str: <=2 bytes), total length 5", "same") }
tiers! { join_char_sep_0: unwind(10, 10), join_strs::<true, 0>(), join_strs::<true, 0>(),
    calls("konst_kernel::string::join_sum_lengths", "konst_kernel::string::join_strs::<0>", "__MakeSepArg::<char>::conv"),
    bounds("0..=3 pieces of <=1 byte, any char separator (str: <=2 bytes), total length 0", "same") }
tiers! { join_char_sep_3: unwind(10, 10), join_strs::<true, 3>(), join_strs::<true, 3>(),
    calls("konst_kernel::string::join_sum_lengths", "konst_kernel::string::join_strs::<3>", "__MakeSepArg::<char>::conv"),
    bounds("0..=3 pieces of <=1 byte, any char separator (str: <=2 bytes), total length 3", "same") }
tiers! { join_char_sep_7: unwind(10, 10), join_strs::<true, 7>(), join_strs::<true, 7>(),
    calls("konst_kernel::string::join_sum_lengths", "konst_kernel::string::join_strs::<7>", "__MakeSepArg::<char>::conv"),
    bounds("0..=3 pieces of <=1 byte, any char separator (str: <=2 bytes), total length 7", "same") }
tiers! { slice_concat_0: unwind(8, 8), slice_concat::<0>(), slice_concat::<0>(),
    calls("konst_kernel::slice::concat_sum_lengths", "konst_kernel::slice::concat_slices::<u16, 0>"),
    bounds("0..=3 u16 slices of <=2,2,1 elements, total length 0", "same") }
tiers! { slice_concat_2: unwind(8, 8), slice_concat::<2>(), slice_concat::<2>(),
    calls("konst_kernel::slice::concat_sum_lengths", "konst_kernel::slice::concat_slices::<u16, 2>"),
    bounds("0..=3 u16 slices of <=2,2,1 elements, total length 2", "same") }
tiers! { slice_concat_5: unwind(8, 8), slice_concat::<5>(), slice_concat::<5>(),
    calls("konst_kernel::slice::concat_sum_lengths", "konst_kernel::slice::concat_slices::<u16, 5>"),
    bounds("0..=3 u16 slices of <=2,2,1 elements, total length 5", "same") }
tiers! { elem_dispatch: unwind(7, 7), elem_dispatch(), elem_dispatch(),
    calls("konst_kernel::string::__ElemDispatch::{len,as_bytesable}"), bounds("every char; every str <=4 bytes", "same") }
tiers! { cstr_constructors: unwind(8, 11), cstr_constructors::<5>(), cstr_constructors::<8>(),
    calls("konst::ffi::cstr::from_bytes_until_nul", "konst::ffi::cstr::from_bytes_with_nul"),
    bounds("every byte slice <=5 bytes", "<=8 bytes") }
tiers! { cstr_conversions: unwind(8, 11), cstr_conversions::<4>(), cstr_conversions::<7>(),
    calls("konst::ffi::cstr::to_bytes_with_nul", "konst::ffi::cstr::to_bytes", "konst::ffi::cstr::to_str"),
    bounds("every C string inside a byte slice <=4 bytes", "<=7 bytes") }
