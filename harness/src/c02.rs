//! C02 — slice indexing and splitting functions agree with std slice indexing.
//!
//! Oracle: `slice.get(..)`, `split_at_checked`, `<&[T; N]>::try_from`, `as_chunks`, compared by
//! address and length (empty results by length only). Indices are unconstrained `usize`.
use crate::util::*;
use konst::slice as ks;

#[inline]
fn same<T>(a: &[T], b: &[T]) -> bool {
    a.len() == b.len() && (a.is_empty() || a.as_ptr() == b.as_ptr())
}
#[inline]
fn same_opt<T>(a: Option<&[T]>, b: Option<&[T]>) -> bool {
    match (a, b) {
        (None, None) => true,
        (Some(a), Some(b)) => same(a, b),
        _ => false,
    }
}

/// fallible getters = `slice.get(..)`
fn getters<T: kani::Arbitrary, const CAP: usize>() {
    let arr: [T; CAP] = kani::any();
    let len: usize = kani::any();
    kani::assume(len <= CAP);
    let s = &arr[..len];
    let i: usize = kani::any();
    let j: usize = kani::any();
    match (ks::get(s, i), s.get(i)) {
        (None, None) => {}
        (Some(a), Some(b)) => assert!(core::ptr::eq(a, b)),
        _ => assert!(false),
    }
    assert!(same_opt(ks::get_from(s, i), s.get(i..)));
    assert!(same_opt(ks::get_up_to(s, i), s.get(..i)));
    assert!(same_opt(ks::get_range(s, i, j), s.get(i..j)));
    must_reach!(i < j && j == len && len == CAP && i > 0, "proper interior range of a full slice");
    must_reach!(i > j, "inverted range");
    must_reach!(i == usize::MAX, "index usize::MAX");
}

/// clamping variants: std's sub-slice when it exists, else the documented clamped result
fn clamping<T: kani::Arbitrary, const CAP: usize>() {
    let arr: [T; CAP] = kani::any();
    let len: usize = kani::any();
    kani::assume(len <= CAP);
    let s = &arr[..len];
    let i: usize = kani::any();
    let j: usize = kani::any();
    let from = ks::slice_from(s, i);
    match s.get(i..) {
        Some(x) => assert!(same(from, x)),
        None => assert!(from.is_empty()),
    }
    let upto = ks::slice_up_to(s, i);
    match s.get(..i) {
        Some(x) => assert!(same(upto, x)),
        None => assert!(same(upto, s)),
    }
    let range = ks::slice_range(s, i, j);
    match s.get(i..j) {
        Some(x) => assert!(same(range, x)),
        None => {
            // documented: start >= end or len < start => empty; len < end => slice from start
            if i >= j || len < i {
                assert!(range.is_empty());
            } else {
                assert!(same(range, &s[i..]));
            }
        }
    }
    let (l, r) = ks::split_at(s, i);
    match s.split_at_checked(i) {
        Some((a, b)) => assert!(same(l, a) && same(r, b)),
        None => assert!(same(l, s) && r.is_empty()),
    }
    must_reach!(i < j && j < len && i > 0, "proper interior range");
    must_reach!(i < len && j > len, "end clamped");
    must_reach!(i > len, "start beyond the length");
}

/// `_mut` twins address exactly the same elements as the shared versions
fn getters_mut<T: kani::Arbitrary + Copy + PartialEq, const CAP: usize>() {
    let mut arr: [T; CAP] = kani::any();
    let len: usize = kani::any();
    kani::assume(len <= CAP);
    let i: usize = kani::any();
    let j: usize = kani::any();
    let v: T = kani::any();
    let base = arr.as_ptr();
    let sel: u8 = kani::any();
    // expected (offset,len) from std on a shared reborrow
    let want: Option<(usize, usize)> = {
        let s = &arr[..len];
        let w = match sel {
            0 => s.get(i..),
            1 => s.get(..i),
            2 => s.get(i..j),
            _ => s.get(i..).filter(|_| false),
        };
        w.map(|x| (if x.is_empty() { 0 } else { unsafe { x.as_ptr().offset_from(base) as usize } }, x.len()))
    };
    kani::assume(sel <= 2);
    let got: Option<&mut [T]> = {
        let s = &mut arr[..len];
        match sel {
            0 => ks::get_from_mut(s, i),
            1 => ks::get_up_to_mut(s, i),
            _ => ks::get_range_mut(s, i, j),
        }
    };
    match (got, want) {
        (None, None) => {}
        (Some(g), Some((off, l))) => {
            assert!(g.len() == l);
            if l > 0 {
                assert!(unsafe { g.as_ptr().offset_from(base) as usize } == off);
                let k: usize = kani::any();
                kani::assume(k < l);
                g[k] = v;
                assert!(arr[off + k] == v);
            }
        }
        _ => assert!(false),
    }
    // single element
    let want1 = arr[..len].get(i).map(|p| unsafe { (p as *const T).offset_from(base) as usize });
    match (ks::get_mut(&mut arr[..len], i), want1) {
        (None, None) => {}
        (Some(p), Some(off)) => {
            *p = v;
            assert!(arr[off] == v && off == i);
        }
        _ => assert!(false),
    }
    must_reach!(sel == 2 && i > 0 && i < j && j == len && len == CAP, "interior range_mut of a full slice");
    must_reach!(sel == 0 && i == len, "get_from_mut at len");
    must_reach!(i == usize::MAX, "index usize::MAX");
}

fn clamping_mut<T: kani::Arbitrary + Copy + PartialEq, const CAP: usize>() {
    let mut arr: [T; CAP] = kani::any();
    let len: usize = kani::any();
    kani::assume(len <= CAP);
    let i: usize = kani::any();
    let j: usize = kani::any();
    let v: T = kani::any();
    let base = arr.as_ptr();
    let sel: u8 = kani::any();
    kani::assume(sel <= 2);
    // expected from the shared clamping functions (tied to std by `clamping`)
    let (woff, wlen) = {
        let s = &arr[..len];
        let w = match sel {
            0 => ks::slice_from(s, i),
            1 => ks::slice_up_to(s, i),
            _ => ks::slice_range(s, i, j),
        };
        (if w.is_empty() { 0 } else { unsafe { w.as_ptr().offset_from(base) as usize } }, w.len())
    };
    let g: &mut [T] = {
        let s = &mut arr[..len];
        match sel {
            0 => ks::slice_from_mut(s, i),
            1 => ks::slice_up_to_mut(s, i),
            _ => ks::slice_range_mut(s, i, j),
        }
    };
    assert!(g.len() == wlen);
    if wlen > 0 {
        assert!(unsafe { g.as_ptr().offset_from(base) as usize } == woff);
        let k: usize = kani::any();
        kani::assume(k < wlen);
        g[k] = v;
        assert!(arr[woff + k] == v);
    }
    must_reach!(sel == 2 && i > 0 && i < j && j < len, "interior slice_range_mut");
    must_reach!(sel == 1 && i > len && len == CAP, "slice_up_to_mut clamped to the whole slice");
    must_reach!(sel == 0 && i > len, "slice_from_mut beyond the length");
}

fn split_at_mut<T: kani::Arbitrary + Copy + PartialEq, const CAP: usize>() {
    let mut arr: [T; CAP] = kani::any();
    let len: usize = kani::any();
    kani::assume(len <= CAP);
    let at: usize = kani::any();
    let v: T = kani::any();
    let w: T = kani::any();
    let base = arr.as_ptr();
    let (l, r) = ks::split_at_mut(&mut arr[..len], at);
    let cut = if at <= len { at } else { len };
    assert!(l.len() == cut && r.len() == len - cut);
    if !l.is_empty() {
        assert!(l.as_ptr() == base);
        let k: usize = kani::any();
        kani::assume(k < l.len());
        l[k] = v;
    }
    if !r.is_empty() {
        assert!(unsafe { r.as_ptr().offset_from(base) as usize } == cut);
        r[0] = w;
    }
    if cut < len {
        assert!(arr[cut] == w);
    }
    must_reach!(at > 0 && at < len, "interior split");
    must_reach!(at > len && len == CAP, "split point beyond the length");
    must_reach!(at == len && len > 0, "split at len");
}

fn first_last_mut<T: kani::Arbitrary + Copy + PartialEq, const CAP: usize>() {
    let mut arr: [T; CAP] = kani::any();
    let len: usize = kani::any();
    kani::assume(len <= CAP);
    let v: T = kani::any();
    let base = arr.as_ptr();
    match ks::first_mut(&mut arr[..len]) {
        None => assert!(len == 0),
        Some(p) => {
            assert!(len > 0 && p as *const T == base);
        }
    }
    match ks::last_mut(&mut arr[..len]) {
        None => assert!(len == 0),
        Some(p) => {
            assert!(len > 0);
            *p = v;
            assert!(arr[len - 1] == v);
        }
    }
    match ks::split_first_mut(&mut arr[..len]) {
        None => assert!(len == 0),
        Some((f, rest)) => {
            assert!(f as *const T == base && rest.len() == len - 1);
            if len > 1 {
                assert!(unsafe { rest.as_ptr().offset_from(base) } == 1);
            }
        }
    }
    match ks::split_last_mut(&mut arr[..len]) {
        None => assert!(len == 0),
        Some((l, rest)) => {
            assert!(rest.len() == len - 1);
            assert!(unsafe { (l as *const T).offset_from(base) as usize } == len - 1);
            if len > 1 {
                assert!(rest.as_ptr() == base);
            }
        }
    }
    must_reach!(len == CAP, "full slice");
    must_reach!(len == 0, "empty slice");
}

fn try_into_array<T: kani::Arbitrary + Copy + PartialEq, const CAP: usize, const N: usize>() {
    let mut arr: [T; CAP] = kani::any();
    let len: usize = kani::any();
    kani::assume(len <= CAP);
    let start: usize = kani::any();
    kani::assume(start <= len);
    let base = arr.as_ptr();
    {
        let s = &arr[start..len];
        let std_r: Result<&[T; N], _> = <&[T; N]>::try_from(s);
        match (ks::try_into_array::<T, N>(s), std_r) {
            (Err(_), Err(_)) => {}
            (Ok(a), Ok(b)) => assert!(core::ptr::eq(a, b)),
            _ => assert!(false),
        }
    }
    let v: T = kani::any();
    match ks::try_into_array_mut::<T, N>(&mut arr[start..len]) {
        Err(_) => assert!(len - start != N),
        Ok(a) => {
            assert!(len - start == N);
            if N > 0 {
                assert!(unsafe { a.as_ptr().offset_from(base) as usize } == start);
                a[N - 1] = v;
                assert!(arr[start + N - 1] == v);
            }
        }
    }
    must_reach!(len - start == N && start > 0, "exact length at a non-zero offset");
    must_reach!(len - start == N + 1, "one element too long");
}

fn as_chunks<T: kani::Arbitrary, const CAP: usize, const N: usize>() {
    let arr: [T; CAP] = kani::any();
    let len: usize = kani::any();
    kani::assume(len <= CAP);
    let s = &arr[..len];
    let (ka, kr) = ks::as_chunks::<T, N>(s);
    let (sa, sr) = s.as_chunks::<N>();
    assert!(ka.len() == sa.len() && (ka.is_empty() || ka.as_ptr() == sa.as_ptr()));
    assert!(same(kr, sr));
    let (kr2, ka2) = ks::as_rchunks::<T, N>(s);
    let (sr2, sa2) = s.as_rchunks::<N>();
    assert!(ka2.len() == sa2.len() && (ka2.is_empty() || ka2.as_ptr() == sa2.as_ptr()));
    assert!(same(kr2, sr2));
    must_reach!(len > N && len % N != 0 || N == 1 && len == CAP, "more than one chunk and a remainder");
    must_reach!(len < N, "shorter than one chunk");
}

/// zero-sized elements: every length up to usize::MAX
fn zst_all_lengths() {
    static BIG: [(); usize::MAX] = [(); usize::MAX];
    let len: usize = kani::any();
    let s = &BIG[..len];
    let i: usize = kani::any();
    let j: usize = kani::any();
    assert!(ks::get(s, i).is_some() == (i < len));
    assert!(same_opt(ks::get_from(s, i), s.get(i..)));
    assert!(same_opt(ks::get_up_to(s, i), s.get(..i)));
    assert!(same_opt(ks::get_range(s, i, j), s.get(i..j)));
    let from = ks::slice_from(s, i);
    assert!(from.len() == if i <= len { len - i } else { 0 });
    let upto = ks::slice_up_to(s, i);
    assert!(upto.len() == if i <= len { i } else { len });
    let (l, r) = ks::split_at(s, i);
    assert!(l.len() == if i <= len { i } else { len } && l.len() + r.len() == len);
    let range = ks::slice_range(s, i, j);
    let e = if j <= len { j } else { len };
    assert!(range.len() == if i <= e { e - i } else { 0 });
    assert!(ks::try_into_array::<(), 3>(s).is_ok() == (len == 3));
    let (ca, cr) = ks::as_chunks::<(), 3>(s);
    assert!(ca.len() == len / 3 && cr.len() == len % 3);
    let (cr2, ca2) = ks::as_rchunks::<(), 2>(s);
    assert!(ca2.len() == len / 2 && cr2.len() == len % 2);
    must_reach!(len == usize::MAX && i == usize::MAX, "length usize::MAX");
    must_reach!(i < j && j < len, "interior range");
}

macro_rules! per_type {
    ($($m:ident: $t:ty, $tn:literal);* $(;)?) => { $(
        pub mod $m {
            use super::*;
            tiers! { getters: unwind(7, 11), getters::<$t, 5>(), getters::<$t, 9>(),
                calls("konst::slice::get", "konst::slice::get_from", "konst::slice::get_up_to", "konst::slice::get_range"),
                bounds("len<=5, indices: all usize", "len<=9, indices: all usize") }
            tiers! { clamping: unwind(7, 11), clamping::<$t, 5>(), clamping::<$t, 9>(),
                calls("konst::slice::slice_from", "konst::slice::slice_up_to", "konst::slice::slice_range", "konst::slice::split_at"),
                bounds("len<=5, indices: all usize", "len<=9, indices: all usize") }
            tiers! { getters_mut: unwind(7, 11), getters_mut::<$t, 5>(), getters_mut::<$t, 9>(),
                calls("konst::slice::get_mut", "konst::slice::get_from_mut", "konst::slice::get_up_to_mut", "konst::slice::get_range_mut"),
                bounds("len<=5, indices: all usize", "len<=9, indices: all usize") }
            tiers! { clamping_mut: unwind(7, 11), clamping_mut::<$t, 5>(), clamping_mut::<$t, 9>(),
                calls("konst::slice::slice_from_mut", "konst::slice::slice_up_to_mut", "konst::slice::slice_range_mut"),
                bounds("len<=5, indices: all usize", "len<=9, indices: all usize") }
            tiers! { split_at_mut: unwind(7, 11), split_at_mut::<$t, 5>(), split_at_mut::<$t, 9>(),
                calls("konst::slice::split_at_mut"),
                bounds("len<=5, at: all usize", "len<=9, at: all usize") }
            tiers! { first_last_mut: unwind(7, 11), first_last_mut::<$t, 5>(), first_last_mut::<$t, 9>(),
                calls("konst::slice::first_mut", "konst::slice::last_mut", "konst::slice::split_first_mut", "konst::slice::split_last_mut"),
                bounds("len<=5", "len<=9") }
            tiers! { try_into_array0: unwind(7, 11), try_into_array::<$t, 5, 0>(), try_into_array::<$t, 9, 0>(),
                calls("konst::slice::try_into_array::<_,0>", "konst::slice::try_into_array_mut::<_,0>"), bounds("len<=5", "len<=9") }
            tiers! { try_into_array1: unwind(7, 11), try_into_array::<$t, 5, 1>(), try_into_array::<$t, 9, 1>(),
                calls("konst::slice::try_into_array::<_,1>", "konst::slice::try_into_array_mut::<_,1>"), bounds("len<=5", "len<=9") }
            tiers! { try_into_array3: unwind(7, 11), try_into_array::<$t, 5, 3>(), try_into_array::<$t, 9, 3>(),
                calls("konst::slice::try_into_array::<_,3>", "konst::slice::try_into_array_mut::<_,3>"), bounds("len<=5", "len<=9") }
            tiers! { as_chunks1: unwind(7, 11), as_chunks::<$t, 5, 1>(), as_chunks::<$t, 9, 1>(),
                calls("konst::slice::as_chunks::<_,1>", "konst::slice::as_rchunks::<_,1>"), bounds("len<=5", "len<=9") }
            tiers! { as_chunks2: unwind(7, 11), as_chunks::<$t, 5, 2>(), as_chunks::<$t, 9, 2>(),
                calls("konst::slice::as_chunks::<_,2>", "konst::slice::as_rchunks::<_,2>"), bounds("len<=5", "len<=9") }
            tiers! { as_chunks3: unwind(7, 11), as_chunks::<$t, 5, 3>(), as_chunks::<$t, 9, 3>(),
                calls("konst::slice::as_chunks::<_,3>", "konst::slice::as_rchunks::<_,3>"), bounds("len<=5", "len<=9") }
        }
    )* };
}

per_type! {
    t_u8: u8, "u8";
    t_u32: u32, "u32";
    t_arr3: [u8; 3], "[u8;3]";
}

tiers! { zst_all_lengths: unwind(3, 3), zst_all_lengths(), zst_all_lengths(),
    calls("konst::slice::{get,get_from,get_up_to,get_range,slice_from,slice_up_to,slice_range,split_at,try_into_array,as_chunks,as_rchunks}::<()>"),
    bounds("every length 0..=usize::MAX, indices: all usize", "every length 0..=usize::MAX, indices: all usize"),
    exhaustive }
