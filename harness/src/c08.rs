//! C08 — slice iterators behave like std's double-ended slice iterators.
//!
//! Every harness steps the konst iterator and the std iterator of the same name side by side with a
//! symbolic front/back choice per step until both are exhausted (and once more after that),
//! comparing items by address (and length), for all slice lengths up to the bound and all
//! chunk/window sizes `1..=len+1`. Element values are irrelevant (only addresses are compared).
use crate::util::*;
use konst::slice as ks;

#[inline]
fn same_s<T>(a: &[T], b: &[T]) -> bool {
    a.len() == b.len() && (a.is_empty() || a.as_ptr() == b.as_ptr())
}

/// step `$k` (konst, by-value `next()/next_back()` returning `(item, iter)`) against `$st` (std)
macro_rules! lockstep {
    ($k:ident, $st:ident, $max:expr, $steps:ident, $backs:ident, |$a:ident, $b:ident| $same:expr, |$kk:ident, $ss:ident| $after:expr) => {
        let mut exhausted = false;
        let mut i = 0;
        while i < $max {
            let back: bool = kani::any();
            let (kn, sn) = if back { ($k.copy().next_back(), $st.next_back()) } else { ($k.copy().next(), $st.next()) };
            match (kn, sn) {
                (None, None) => exhausted = true,
                (Some(($a, rest)), Some($b)) => {
                    assert!(!exhausted);
                    assert!($same);
                    $k = rest;
                    $steps += 1;
                    $backs += back as usize;
                    let ($kk, $ss) = (&$k, &$st);
                    assert!($after);
                }
                _ => assert!(false),
            }
            i += 1;
        }
        assert!(exhausted);
    };
}

macro_rules! per_elem {
    ($($m:ident: $t:ty);* $(;)?) => { $(
        pub mod $m {
            use super::*;
            type T = $t;

            fn iter<const CAP: usize>() {
                sym_slice!(s, T, CAP);
                let (mut steps, mut backs) = (0usize, 0usize);
                let mut k = ks::iter(s);
                let mut st = s.iter();
                lockstep!(k, st, CAP + 2, steps, backs, |a, b| core::ptr::eq(a, b), |kk, ss| same_s(kk.as_slice(), ss.as_slice()));
                let mut k = ks::iter(s).rev();
                let mut st = s.iter().rev();
                let (mut steps2, mut backs2) = (0usize, 0usize);
                lockstep!(k, st, CAP + 2, steps2, backs2, |a, b| core::ptr::eq(a, b), |kk, ss| true);
                // the iteration macros go through the same iterator
                let mut n = 0usize;
                konst::iter::for_each! {x in s => assert!(core::ptr::eq(x, &s[n])); n += 1;}
                assert!(n == s.len());
                must_reach!(steps == CAP && backs > 0 && backs < steps, "full slice, mixed ends");
                must_reach!(steps2 == CAP && backs2 > 0 && backs2 < steps2, "reversed: full slice, mixed ends");
            }

            fn windows<const CAP: usize>() {
                sym_slice!(s, T, CAP);
                let n: usize = kani::any();
                kani::assume(n >= 1 && n <= CAP + 1);
                let (mut steps, mut backs) = (0usize, 0usize);
                let mut k = ks::windows(s, n);
                let mut st = s.windows(n);
                lockstep!(k, st, CAP + 2, steps, backs, |a, b| same_s(a, b), |kk, ss| true);
                let mut k = ks::windows(s, n).rev();
                let mut st = s.windows(n).rev();
                let (mut steps2, mut backs2) = (0usize, 0usize);
                lockstep!(k, st, CAP + 2, steps2, backs2, |a, b| same_s(a, b), |kk, ss| true);
                must_reach!(steps >= 3 && n == 2 && backs > 0 && backs < steps, "three windows of 2, mixed ends");
                must_reach!(n > s.len() && s.len() == CAP, "window larger than the slice");
                must_reach!(steps2 >= 2 && backs2 == 1, "reversed windows");
            }

            fn chunks<const CAP: usize>() {
                sym_slice!(s, T, CAP);
                let n: usize = kani::any();
                kani::assume(n >= 1 && n <= CAP + 1);
                let (mut steps, mut backs) = (0usize, 0usize);
                let mut k = ks::chunks(s, n);
                let mut st = s.chunks(n);
                lockstep!(k, st, CAP + 2, steps, backs, |a, b| same_s(a, b), |kk, ss| true);
                let mut k = ks::chunks(s, n).rev();
                let mut st = s.chunks(n).rev();
                let (mut steps2, mut backs2) = (0usize, 0usize);
                lockstep!(k, st, CAP + 2, steps2, backs2, |a, b| same_s(a, b), |kk, ss| true);
                must_reach!(steps >= 3 && s.len() % n != 0 && backs > 0 && backs < steps, "three chunks with a short last one, mixed ends");
                must_reach!(n > s.len() && s.len() > 0, "chunk size larger than the slice");
                must_reach!(steps2 >= 2 && backs2 == 1 && s.len() % n != 0, "reversed chunks with a short one");
            }

            fn rchunks<const CAP: usize>() {
                sym_slice!(s, T, CAP);
                let n: usize = kani::any();
                kani::assume(n >= 1 && n <= CAP + 1);
                let (mut steps, mut backs) = (0usize, 0usize);
                let mut k = ks::rchunks(s, n);
                let mut st = s.rchunks(n);
                lockstep!(k, st, CAP + 2, steps, backs, |a, b| same_s(a, b), |kk, ss| true);
                let mut k = ks::rchunks(s, n).rev();
                let mut st = s.rchunks(n).rev();
                let (mut steps2, mut backs2) = (0usize, 0usize);
                lockstep!(k, st, CAP + 2, steps2, backs2, |a, b| same_s(a, b), |kk, ss| true);
                must_reach!(steps >= 3 && s.len() % n != 0 && backs > 0 && backs < steps, "three rchunks with a short first one, mixed ends");
                must_reach!(steps2 >= 2 && backs2 == 1 && s.len() % n != 0, "reversed rchunks with a short one");
            }

            fn chunks_exact<const CAP: usize>() {
                sym_slice!(s, T, CAP);
                let n: usize = kani::any();
                kani::assume(n >= 1 && n <= CAP + 1);
                let (mut steps, mut backs) = (0usize, 0usize);
                let mut k = ks::chunks_exact(s, n);
                let mut st = s.chunks_exact(n);
                assert!(same_s(k.remainder(), st.remainder()));
                lockstep!(k, st, CAP + 2, steps, backs, |a, b| same_s(a, b), |kk, ss| same_s(kk.remainder(), ss.remainder()));
                let mut k = ks::chunks_exact(s, n).rev();
                let mut st = s.chunks_exact(n).rev();
                assert!(k.remainder().len() == s.len() % n);
                let (mut steps2, mut backs2) = (0usize, 0usize);
                lockstep!(k, st, CAP + 2, steps2, backs2, |a, b| same_s(a, b), |kk, ss| true);
                must_reach!(steps >= 2 && s.len() % n != 0 && backs == 1, "two exact chunks plus a remainder, mixed ends");
                must_reach!(n > s.len() && s.len() > 0, "no exact chunk, everything in the remainder");
                must_reach!(steps2 >= 2 && backs2 == 1, "reversed exact chunks");
            }

            fn rchunks_exact<const CAP: usize>() {
                sym_slice!(s, T, CAP);
                let n: usize = kani::any();
                kani::assume(n >= 1 && n <= CAP + 1);
                let (mut steps, mut backs) = (0usize, 0usize);
                let mut k = ks::rchunks_exact(s, n);
                let mut st = s.rchunks_exact(n);
                assert!(same_s(k.remainder(), st.remainder()));
                lockstep!(k, st, CAP + 2, steps, backs, |a, b| same_s(a, b), |kk, ss| same_s(kk.remainder(), ss.remainder()));
                let mut k = ks::rchunks_exact(s, n).rev();
                let mut st = s.rchunks_exact(n).rev();
                let (mut steps2, mut backs2) = (0usize, 0usize);
                lockstep!(k, st, CAP + 2, steps2, backs2, |a, b| same_s(a, b), |kk, ss| true);
                must_reach!(steps >= 2 && s.len() % n != 0 && backs == 1, "two exact rchunks plus a remainder at the front, mixed ends");
                must_reach!(steps2 >= 2 && backs2 == 1, "reversed exact rchunks");
            }

            fn array_chunks<const CAP: usize, const N: usize>() {
                sym_slice!(s, T, CAP);
                let (mut steps, mut backs) = (0usize, 0usize);
                let mut k = ks::array_chunks::<T, N>(s);
                let (arrs, rem) = s.as_chunks::<N>();
                let mut st = arrs.iter();
                assert!(same_s(k.remainder(), rem));
                lockstep!(k, st, CAP + 2, steps, backs, |a, b| core::ptr::eq(a, b), |kk, ss| same_s(kk.remainder(), rem));
                let mut k = ks::array_chunks::<T, N>(s).rev();
                let mut st = arrs.iter().rev();
                let (mut steps2, mut backs2) = (0usize, 0usize);
                lockstep!(k, st, CAP + 2, steps2, backs2, |a, b| core::ptr::eq(a, b), |kk, ss| true);
                must_reach!(steps >= 2 && backs == 1, "two arrays, mixed ends");
                must_reach!(steps >= 1 && (s.len() % N != 0 || N == 1), "an array plus a remainder");
                must_reach!(steps2 >= 2 && backs2 == 1, "reversed array chunks");
            }

            /// copying an iterator gives an independent iterator with the same future
            fn copy_independent<const CAP: usize>() {
                sym_slice!(s, T, CAP);
                let n: usize = kani::any();
                kani::assume(n >= 1 && n <= CAP + 1);
                let it = ks::chunks(s, n);
                let cp = it.copy();
                if let Some((_, adv)) = cp.next() {
                    let _ = adv.next_back();
                    match (it.copy().next(), s.chunks(n).next()) {
                        (Some((a, _)), Some(b)) => assert!(same_s(a, b)),
                        _ => assert!(false),
                    }
                }
                let w = ks::windows(s, n);
                let wc = w.copy();
                if let Some((_, adv)) = wc.next_back() {
                    let _ = adv.next();
                    match (w.next_back(), s.windows(n).next_back()) {
                        (Some((a, _)), Some(b)) => assert!(same_s(a, b)),
                        _ => assert!(false),
                    }
                }
                must_reach!(s.len() == CAP && n == 2, "full slice, size 2");
            }

            tiers! { iter: unwind(9, 12), iter::<6>(), iter::<9>(),
                calls("konst::slice::iter", "Iter::{next,next_back,rev,copy,as_slice}", "IterRev::{next,next_back}", "konst::iter::for_each!(&[T])"),
                bounds("every slice length <=6, every front/back interleaving to exhaustion", "length <=9") }
            tiers! { windows: unwind(9, 12), windows::<6>(), windows::<9>(),
                calls("konst::slice::windows", "Windows::{next,next_back,rev,copy}", "WindowsRev::{next,next_back}"),
                bounds("every slice length <=6, every size 1..=7, every interleaving", "length <=9, size 1..=10") }
            tiers! { chunks: unwind(9, 12), chunks::<6>(), chunks::<9>(),
                calls("konst::slice::chunks", "Chunks::{next,next_back,rev,copy}", "ChunksRev::{next,next_back}"),
                bounds("every slice length <=6, every size 1..=7, every interleaving", "length <=9, size 1..=10") }
            tiers! { rchunks: unwind(9, 12), rchunks::<6>(), rchunks::<9>(),
                calls("konst::slice::rchunks", "RChunks::{next,next_back,rev,copy}", "RChunksRev::{next,next_back}"),
                bounds("every slice length <=6, every size 1..=7, every interleaving", "length <=9, size 1..=10") }
            tiers! { chunks_exact: unwind(9, 12), chunks_exact::<6>(), chunks_exact::<9>(),
                calls("konst::slice::chunks_exact", "ChunksExact::{next,next_back,rev,copy,remainder}", "ChunksExactRev::{next,next_back,remainder}"),
                bounds("every slice length <=6, every size 1..=7, every interleaving", "length <=9, size 1..=10") }
            tiers! { rchunks_exact: unwind(9, 12), rchunks_exact::<6>(), rchunks_exact::<9>(),
                calls("konst::slice::rchunks_exact", "RChunksExact::{next,next_back,rev,copy,remainder}", "RChunksExactRev::{next,next_back}"),
                bounds("every slice length <=6, every size 1..=7, every interleaving", "length <=9, size 1..=10") }
            tiers! { array_chunks1: unwind(9, 12), array_chunks::<6, 1>(), array_chunks::<9, 1>(),
                calls("konst::slice::array_chunks::<_,1>", "ArrayChunks::{next,next_back,rev,remainder}"), bounds("every slice length <=6", "length <=9") }
            tiers! { array_chunks2: unwind(9, 12), array_chunks::<6, 2>(), array_chunks::<9, 2>(),
                calls("konst::slice::array_chunks::<_,2>", "ArrayChunks::{next,next_back,rev,remainder}"), bounds("every slice length <=6", "length <=9") }
            tiers! { array_chunks3: unwind(9, 12), array_chunks::<6, 3>(), array_chunks::<9, 3>(),
                calls("konst::slice::array_chunks::<_,3>", "ArrayChunks::{next,next_back,rev,remainder}"), bounds("every slice length <=6", "length <=9") }
            tiers! { copy_independent: unwind(9, 12), copy_independent::<6>(), copy_independent::<9>(),
                calls("Chunks::copy", "Windows::copy"), bounds("every slice length <=6, every size", "length <=9") }
        }
    )* };
}

per_elem! {
    e_u16: u16;
    e_unit: ();
}

// ------------------------------------------------------------------ unbounded sizes and lengths

/// like `lockstep!` but for a fixed number of steps, without requiring exhaustion
macro_rules! lockstep_k {
    ($k:ident, $st:ident, $steps:expr, $somes:ident, |$a:ident, $b:ident| $same:expr) => {
        let mut i = 0;
        while i < $steps {
            let back: bool = kani::any();
            let (kn, sn) = if back { ($k.copy().next_back(), $st.next_back()) } else { ($k.copy().next(), $st.next()) };
            match (kn, sn) {
                (None, None) => {}
                (Some(($a, rest)), Some($b)) => {
                    assert!($same);
                    $k = rest;
                    $somes += 1;
                }
                _ => assert!(false),
            }
            i += 1;
        }
    };
}

/// A symbolic usize from the neighbourhoods that matter for overflow: `0..=k`, `isize::MAX-k ..=
/// isize::MAX+k+1` and `usize::MAX-k ..= usize::MAX` (fully symbolic 64-bit operands of `/` and `%`
/// do not finish in reach; these three neighbourhoods contain every overflow boundary of the
/// expressions in the iterators: len+size-1, len-1, len/size*size, start > isize::MAX).
fn boundary_usize(k: usize) -> usize {
    let off: usize = kani::any();
    kani::assume(off <= k);
    let region: u8 = kani::any();
    match region {
        0 => off,
        1 => (isize::MAX as usize) - off,
        2 => (isize::MAX as usize) + 1 + off,
        _ => usize::MAX - off,
    }
}

/// every chunk/window size from the boundary neighbourhoods (not just up to len+1) on short u16 slices
fn any_size<const CAP: usize, const WHICH: u8>() {
    sym_slice!(s, u16, CAP);
    let n: usize = boundary_usize(CAP + 1);
    kani::assume(n >= 1);
    let which: u8 = WHICH;
    let mut somes = 0usize;
    match which {
        0 => { let mut k = ks::windows(s, n); let mut st = s.windows(n); lockstep_k!(k, st, CAP + 1, somes, |a, b| same_s(a, b)); }
        1 => { let mut k = ks::chunks(s, n); let mut st = s.chunks(n); lockstep_k!(k, st, CAP + 1, somes, |a, b| same_s(a, b)); }
        2 => { let mut k = ks::rchunks(s, n); let mut st = s.rchunks(n); lockstep_k!(k, st, CAP + 1, somes, |a, b| same_s(a, b)); }
        3 => {
            let mut k = ks::chunks_exact(s, n);
            let mut st = s.chunks_exact(n);
            assert!(same_s(k.remainder(), st.remainder()));
            lockstep_k!(k, st, CAP + 1, somes, |a, b| same_s(a, b));
        }
        _ => {
            let mut k = ks::rchunks_exact(s, n);
            let mut st = s.rchunks_exact(n);
            assert!(same_s(k.remainder(), st.remainder()));
            lockstep_k!(k, st, CAP + 1, somes, |a, b| same_s(a, b));
        }
    }
    must_reach!(n == usize::MAX && s.len() == CAP, "size usize::MAX on a full slice");
    must_reach!(n == (isize::MAX as usize) + 1 && s.len() > 0, "size isize::MAX + 1");
    must_reach!(somes == CAP && n == 1 && which != 0 || which == 0 && somes >= 2, "several items");
}

/// zero-sized elements: slice lengths and sizes from the boundary neighbourhoods up to usize::MAX, first 3 steps from either end
fn zst_any_len<const WHICH: u8>() {
    static BIG: [(); usize::MAX] = [(); usize::MAX];
    let len: usize = boundary_usize(7);
    let s = &BIG[..len];
    let n: usize = boundary_usize(3);
    kani::assume(n >= 1);
    let mut somes = 0usize;
    match WHICH {
        0 => { let mut k = ks::windows(s, n); let mut st = s.windows(n); lockstep_k!(k, st, 3, somes, |a, b| a.len() == b.len()); }
        1 => { let mut k = ks::chunks(s, n); let mut st = s.chunks(n); lockstep_k!(k, st, 3, somes, |a, b| a.len() == b.len()); }
        2 => { let mut k = ks::rchunks(s, n); let mut st = s.rchunks(n); lockstep_k!(k, st, 3, somes, |a, b| a.len() == b.len()); }
        3 => {
            let mut k = ks::chunks_exact(s, n);
            let mut st = s.chunks_exact(n);
            assert!(k.remainder().len() == st.remainder().len());
            lockstep_k!(k, st, 3, somes, |a, b| a.len() == b.len());
        }
        4 => {
            let mut k = ks::rchunks_exact(s, n);
            let mut st = s.rchunks_exact(n);
            assert!(k.remainder().len() == st.remainder().len());
            lockstep_k!(k, st, 3, somes, |a, b| a.len() == b.len());
        }
        5 => {
            let mut k = ks::array_chunks::<(), 3>(s);
            let (arrs, rem) = s.as_chunks::<3>();
            assert!(k.remainder().len() == rem.len());
            let mut st = arrs.iter();
            lockstep_k!(k, st, 3, somes, |a, b| true);
        }
        _ => { let mut k = ks::iter(s); let mut st = s.iter(); lockstep_k!(k, st, 3, somes, |a, b| true); }
    }
    must_reach!(len == usize::MAX && somes == 3, "three items from a slice of usize::MAX zero-sized elements");
    must_reach!(len > (isize::MAX as usize) && n > (isize::MAX as usize) && somes >= 1 || WHICH >= 5, "length and size beyond isize::MAX");
    must_reach!(somes == 0, "nothing yielded");
}

tiers! { any_size_windows: unwind(9, 12), any_size::<6, 0>(), any_size::<9, 0>(),
    calls("konst::slice::windows"),
    bounds("u16 slices <=6; sizes 1..=7, isize::MAX-7..=isize::MAX+8, usize::MAX-7..=usize::MAX; every interleaving of 7 steps", "slices <=9, 10 steps") }
tiers! { any_size_chunks: unwind(9, 12), any_size::<6, 1>(), any_size::<9, 1>(),
    calls("konst::slice::chunks"),
    bounds("u16 slices <=6; sizes 1..=7, isize::MAX-7..=isize::MAX+8, usize::MAX-7..=usize::MAX; every interleaving of 7 steps", "slices <=9, 10 steps") }
tiers! { any_size_rchunks: unwind(9, 12), any_size::<6, 2>(), any_size::<9, 2>(),
    calls("konst::slice::rchunks"),
    bounds("u16 slices <=6; sizes 1..=7, isize::MAX-7..=isize::MAX+8, usize::MAX-7..=usize::MAX; every interleaving of 7 steps", "slices <=9, 10 steps") }
tiers! { any_size_chunks_exact: unwind(9, 12), any_size::<6, 3>(), any_size::<9, 3>(),
    calls("konst::slice::chunks_exact"),
    bounds("u16 slices <=6; sizes 1..=7, isize::MAX-7..=isize::MAX+8, usize::MAX-7..=usize::MAX; every interleaving of 7 steps", "slices <=9, 10 steps") }
tiers! { any_size_rchunks_exact: unwind(9, 12), any_size::<6, 4>(), any_size::<9, 4>(),
    calls("konst::slice::rchunks_exact"),
    bounds("u16 slices <=6; sizes 1..=7, isize::MAX-7..=isize::MAX+8, usize::MAX-7..=usize::MAX; every interleaving of 7 steps", "slices <=9, 10 steps") }
tiers! { zst_any_len_windows: unwind(5, 5), zst_any_len::<0>(), zst_any_len::<0>(),
    calls("konst::slice::windows::<()>"), bounds("zero-sized elements; lengths 0..=7, isize::MAX-7..=isize::MAX+8, usize::MAX-7..=usize::MAX; sizes from the same neighbourhoods (+-3); first 3 steps from either end", "same") }
tiers! { zst_any_len_chunks: unwind(5, 5), zst_any_len::<1>(), zst_any_len::<1>(),
    calls("konst::slice::chunks::<()>"), bounds("zero-sized elements; lengths 0..=7, isize::MAX-7..=isize::MAX+8, usize::MAX-7..=usize::MAX; sizes from the same neighbourhoods (+-3); first 3 steps from either end", "same") }
tiers! { zst_any_len_rchunks: unwind(5, 5), zst_any_len::<2>(), zst_any_len::<2>(),
    calls("konst::slice::rchunks::<()>"), bounds("zero-sized elements; lengths 0..=7, isize::MAX-7..=isize::MAX+8, usize::MAX-7..=usize::MAX; sizes from the same neighbourhoods (+-3); first 3 steps from either end", "same") }
tiers! { zst_any_len_chunks_exact: unwind(5, 5), zst_any_len::<3>(), zst_any_len::<3>(),
    calls("konst::slice::chunks_exact::<()>"), bounds("zero-sized elements; lengths 0..=7, isize::MAX-7..=isize::MAX+8, usize::MAX-7..=usize::MAX; sizes from the same neighbourhoods (+-3); first 3 steps from either end", "same") }
tiers! { zst_any_len_rchunks_exact: unwind(5, 5), zst_any_len::<4>(), zst_any_len::<4>(),
    calls("konst::slice::rchunks_exact::<()>"), bounds("zero-sized elements; lengths 0..=7, isize::MAX-7..=isize::MAX+8, usize::MAX-7..=usize::MAX; sizes from the same neighbourhoods (+-3); first 3 steps from either end", "same") }
tiers! { zst_any_len_array_chunks3: unwind(5, 5), zst_any_len::<5>(), zst_any_len::<5>(),
    calls("konst::slice::array_chunks3::<()>"), bounds("zero-sized elements; lengths 0..=7, isize::MAX-7..=isize::MAX+8, usize::MAX-7..=usize::MAX; sizes from the same neighbourhoods (+-3); first 3 steps from either end", "same") }
tiers! { zst_any_len_iter: unwind(5, 5), zst_any_len::<6>(), zst_any_len::<6>(),
    calls("konst::slice::iter::<()>"), bounds("zero-sized elements; lengths 0..=7, isize::MAX-7..=isize::MAX+8, usize::MAX-7..=usize::MAX; sizes from the same neighbourhoods (+-3); first 3 steps from either end", "same") }

/// copied elements: values, not addresses
fn iter_copied<const CAP: usize>() {
    sym_slice!(s, u16, CAP);
    let (mut steps, mut backs) = (0usize, 0usize);
    let mut k = ks::iter_copied(s);
    let mut st = s.iter().copied();
    lockstep!(k, st, CAP + 2, steps, backs, |a, b| a == b, |kk, ss| kk.as_slice().len() == ss.len());
    let mut k = ks::iter_copied(s).rev();
    let mut st = s.iter().copied().rev();
    let (mut steps2, mut backs2) = (0usize, 0usize);
    lockstep!(k, st, CAP + 2, steps2, backs2, |a, b| a == b, |kk, ss| true);
    must_reach!(steps == CAP && backs > 0 && backs < steps && s[0] != s[CAP - 1], "full slice, mixed ends, distinct end values");
    must_reach!(steps2 == CAP && backs2 == 1, "reversed");
}
tiers! { iter_copied: unwind(9, 12), iter_copied::<6>(), iter_copied::<9>(),
    calls("konst::slice::iter_copied", "IterCopied::{next,next_back,rev,copy,as_slice}", "IterCopiedRev::{next,next_back}"),
    bounds("every u16 slice of length <=6, every interleaving", "length <=9") }

/// size 0 is a documented precondition of the chunk/window constructors
fn zero_size_panics() {
    let s = [0u8; 3];
    let which: u8 = kani::any();
    match which {
        0 => { let _ = ks::windows(&s, 0); }
        1 => { let _ = ks::chunks(&s, 0); }
        2 => { let _ = ks::rchunks(&s, 0); }
        3 => { let _ = ks::chunks_exact(&s, 0); }
        _ => { let _ = ks::rchunks_exact(&s, 0); }
    }
    must_not_reach!("a chunk/window iterator was built with size 0");
}
tiers! {
    #[kani::should_panic]
    zero_size_panics: unwind(3, 3), zero_size_panics(), zero_size_panics(),
    calls("konst::slice::{windows,chunks,rchunks,chunks_exact,rchunks_exact}(.., 0)"), bounds("size 0", "size 0"),
    panics_in("windows", "chunks", "rchunks", "chunks_exact", "rchunks_exact") }
