//! C15 — by-value array and aggregate APIs move out every element exactly once.
//!
//! Drop ledger (`util::Tok`, `util::DROPS`): every element carries an id; at the end of every path
//! that runs to completion `handed_out[id] + dropped[id] == 1`. Values must arrive in their original
//! order and bit-for-bit (id and payload). The destructure! pattern family is generated (gen/c15.py).
//! Not modelled: unwinding (Kani aborts at a panic), so "a panicking closure may leak but never
//! double-drops" is outside the claim.
use crate::util::*;
use core::mem::ManuallyDrop;
use konst::array::{ArrayBuilder, ArrayConsumer};

fn mk<const N: usize>(pay: &[u16; N]) -> [Tok; N] {
    core::array::from_fn(|i| Tok(i as u8, pay[i]))
}

/// symbolic sequence of consumer operations, then drop / assert_is_empty
fn consumer_ops<const N: usize>() {
    let pay: [u16; N] = kani::any();
    let mut c = ArrayConsumer::new(mk(&pay));
    let mut handed = [0u8; N];
    let (mut f, mut b) = (0usize, 0usize);
    let mut step = 0;
    while step < N + 2 {
        let op: u8 = kani::any();
        match op % 4 {
            0 => match c.next() {
                Some(md) => {
                    let t = ManuallyDrop::into_inner(md);
                    assert!(f + b < N && t.0 as usize == f && t.1 == pay[f]);
                    handed[f] += 1;
                    f += 1;
                    core::mem::forget(t); // the caller keeps it
                }
                None => assert!(f + b == N),
            },
            1 => match c.next_back() {
                Some(md) => {
                    let t = ManuallyDrop::into_inner(md);
                    assert!(f + b < N && t.0 as usize == N - 1 - b && t.1 == pay[N - 1 - b]);
                    handed[N - 1 - b] += 1;
                    b += 1;
                    core::mem::forget(t);
                }
                None => assert!(f + b == N),
            },
            2 => {
                let s = c.as_slice();
                assert!(s.len() == N - f - b);
                let mut i = 0;
                while i < s.len() {
                    assert!(s[i].0 as usize == f + i && s[i].1 == pay[f + i]);
                    i += 1;
                }
            }
            _ => {
                let s = c.as_mut_slice();
                assert!(s.len() == N - f - b);
                if !s.is_empty() {
                    assert!(s[0].0 as usize == f);
                }
            }
        }
        step += 1;
    }
    let finish_empty: bool = kani::any();
    if finish_empty {
        kani::assume(f + b == N);
        c.assert_is_empty();
    } else {
        drop(c);
    }
    let mut id = 0;
    while id < N {
        assert!(handed[id] + drops(id) == 1);
        id += 1;
    }
    must_reach!(f >= 1 && b >= 1 && f + b < N || N < 3, "taken from both ends, rest dropped by the consumer");
    must_reach!(finish_empty, "emptied and finished with assert_is_empty");
}

fn consumer_assert_nonempty_panics<const N: usize>() {
    let pay: [u16; N] = kani::any();
    let mut c = ArrayConsumer::new(mk(&pay));
    let k: usize = kani::any();
    kani::assume(k < N);
    let mut i = 0;
    while i < k {
        if let Some(md) = c.next() {
            core::mem::forget(ManuallyDrop::into_inner(md));
        }
        i += 1;
    }
    c.assert_is_empty();
    must_not_reach!("assert_is_empty returned (leaking the remaining elements)");
}

/// `empty()` consumers hold nothing and drop nothing
fn consumer_empty<const N: usize>() {
    let mut c = ArrayConsumer::<Tok, N>::empty();
    assert!(c.as_slice().is_empty() && c.next().is_none() && c.next_back().is_none());
    if kani::any() {
        c.assert_is_empty();
    } else {
        drop(c);
    }
    let mut id = 0;
    while id < N {
        assert!(drops(id) == 0);
        id += 1;
    }
    must_reach!("empty consumer finished");
}

/// clone copies exactly the remaining elements, in order, and both halves drop their own
#[derive(Debug)]
struct CTok(u8, u16);
impl Clone for CTok {
    fn clone(&self) -> Self {
        CTok(self.0 + 8, self.1) // clones get ids 8.. so the ledger tells them apart
    }
}
impl Drop for CTok {
    fn drop(&mut self) {
        unsafe {
            DROPS[self.0 as usize] += 1;
        }
    }
}

fn consumer_clone<const N: usize>() {
    let pay: [u16; N] = kani::any();
    let arr: [CTok; N] = core::array::from_fn(|i| CTok(i as u8, pay[i]));
    let mut c = ArrayConsumer::new(arr);
    let nf: usize = kani::any();
    let nb: usize = kani::any();
    kani::assume(nf <= N && nb <= N && nf + nb <= N);
    let mut i = 0;
    while i < nf {
        core::mem::forget(ManuallyDrop::into_inner(c.next().unwrap()));
        i += 1;
    }
    let mut i = 0;
    while i < nb {
        core::mem::forget(ManuallyDrop::into_inner(c.next_back().unwrap()));
        i += 1;
    }
    let mut d = c.clone();
    {
        let s = d.as_slice();
        assert!(s.len() == N - nf - nb);
        let mut i = 0;
        while i < s.len() {
            assert!(s[i].0 as usize == 8 + nf + i && s[i].1 == pay[nf + i]);
            i += 1;
        }
    }
    // the clone is an independent consumer
    if let Some(md) = d.next() {
        let t = ManuallyDrop::into_inner(md);
        assert!(t.0 as usize == 8 + nf);
        drop(t);
    }
    drop(d);
    drop(c);
    let mut id = 0;
    while id < N {
        let remaining = id >= nf && id < N - nb;
        assert!(drops(id) == remaining as u8); // originals: dropped by `c` iff not handed out
        assert!(drops(8 + id) == remaining as u8); // clones exist only for the remaining ones
        id += 1;
    }
    must_reach!(nf >= 1 && nb >= 1 && nf + nb < N || N < 3, "clone of a consumer taken from both ends");
}

fn builder_ops<const N: usize>() {
    let pay: [u16; N] = kani::any();
    let k: usize = kani::any();
    kani::assume(k <= N);
    let mut b = ArrayBuilder::<Tok, N>::new();
    let mut i = 0;
    while i < k {
        b.push(Tok(i as u8, pay[i]));
        i += 1;
    }
    {
        let s = b.as_slice();
        assert!(s.len() == k);
        let mut i = 0;
        while i < k {
            assert!(s[i].0 as usize == i && s[i].1 == pay[i] && drops(i) == 0);
            i += 1;
        }
    }
    let build: bool = kani::any();
    if build {
        kani::assume(k == N);
        let out = b.build();
        let mut i = 0;
        while i < N {
            assert!(out[i].0 as usize == i && out[i].1 == pay[i] && drops(i) == 0);
            i += 1;
        }
        drop(out);
    } else {
        drop(b);
    }
    let mut id = 0;
    while id < N {
        assert!(drops(id) == (id < k) as u8);
        id += 1;
    }
    must_reach!(build, "built and dropped by the caller");
    must_reach!(!build && k >= 1 && k < N || N < 2, "partially filled builder dropped");
}

fn builder_clone<const N: usize>() {
    let pay: [u16; N] = kani::any();
    let k: usize = kani::any();
    kani::assume(k <= N);
    let mut b = ArrayBuilder::<CTok, N>::new();
    let mut i = 0;
    while i < k {
        b.push(CTok(i as u8, pay[i]));
        i += 1;
    }
    let c = b.clone();
    {
        let s = c.as_slice();
        assert!(s.len() == k);
        let mut i = 0;
        while i < k {
            assert!(s[i].0 as usize == 8 + i && s[i].1 == pay[i]);
            i += 1;
        }
    }
    drop(b);
    drop(c);
    let mut id = 0;
    while id < N {
        assert!(drops(id) == (id < k) as u8 && drops(8 + id) == (id < k) as u8);
        id += 1;
    }
    must_reach!(k == N && N > 0 || N == 0, "clone of a full builder");
}

/// by-value map: every element is handed to the closure exactly once, in order; results in order
fn map_by_value_moves<const N: usize>() {
    let pay: [u16; N] = kani::any();
    let input = mk(&pay);
    let mut seen = [0u8; N];
    let mut order_ok = true;
    let mut next = 0usize;
    let out: [Tok; N] = konst::array::map_!(input, |t| {
        let id = t.0 as usize;
        seen[id] += 1;
        order_ok &= id == next;
        next += 1;
        let p = t.1;
        core::mem::forget(t);
        Tok(8 + id as u8, p ^ 0x5555)
    });
    assert!(order_ok);
    let mut i = 0;
    while i < N {
        assert!(seen[i] == 1 && drops(i) == 0);
        assert!(out[i].0 as usize == 8 + i && out[i].1 == pay[i] ^ 0x5555 && drops(8 + i) == 0);
        i += 1;
    }
    drop(out);
    let mut i = 0;
    while i < N {
        assert!(drops(8 + i) == 1 && drops(i) == 0);
        i += 1;
    }
    must_reach!("mapped by value");
}

/// a closure that drops its argument: dropped exactly once
fn map_by_value_drops<const N: usize>() {
    let pay: [u16; N] = kani::any();
    let input = mk(&pay);
    let out: [u16; N] = konst::array::map_!(input, |t| t.1);
    let mut i = 0;
    while i < N {
        assert!(out[i] == pay[i] && drops(i) == 1);
        i += 1;
    }
    must_reach!("mapped by value, inputs dropped by the closure");
}

/// Zero-sized elements with a destructor: no identity to track, so the ledger is a count - every
/// element is either handed out or dropped by the consumer, `handed + dropped == N`.
pub static mut ZDROPS: u8 = 0;
struct ZTok;
impl Drop for ZTok {
    fn drop(&mut self) {
        unsafe {
            ZDROPS += 1;
        }
    }
}

fn consumer_zst_ops<const N: usize>() {
    let mut c = ArrayConsumer::new(core::array::from_fn::<ZTok, N, _>(|_| ZTok));
    let mut handed = 0usize;
    let mut step = 0;
    while step < N + 1 {
        let op: u8 = kani::any();
        match op % 3 {
            0 => match c.next() {
                Some(md) => {
                    core::mem::forget(ManuallyDrop::into_inner(md));
                    handed += 1;
                }
                None => assert!(handed == N),
            },
            1 => match c.next_back() {
                Some(md) => {
                    core::mem::forget(ManuallyDrop::into_inner(md));
                    handed += 1;
                }
                None => assert!(handed == N),
            },
            _ => assert!(c.as_slice().len() == N - handed),
        }
        step += 1;
    }
    assert!(handed <= N);
    let cloned: bool = kani::any();
    drop(c);
    let _ = cloned;
    assert!(handed + unsafe { ZDROPS } as usize == N, "zero-sized Drop elements left in the consumer were not dropped exactly once");
    must_reach!(handed >= 1 && handed < N || N < 2, "some taken, the rest dropped by the consumer");
    must_reach!(handed == 0, "nothing taken: the consumer drops all N");
}

macro_rules! per_n {
    ($($m:ident: $n:literal);* $(;)?) => { $(
        pub mod $m {
            use super::*;
            tiers! { consumer_ops: unwind(8, 8), consumer_ops::<$n>(), consumer_ops::<$n>(),
                calls("konst::array::ArrayConsumer::{new,next,next_back,as_slice,as_mut_slice,assert_is_empty,drop}"),
                bounds("every sequence of N+2 operations, every payload", "same") }
            tiers! { consumer_zst_ops: unwind(8, 8), consumer_zst_ops::<$n>(), consumer_zst_ops::<$n>(),
                calls("konst::array::ArrayConsumer::<ZST>::{new,next,next_back,as_slice,drop}"),
                bounds("zero-sized Drop elements; every sequence of N+1 operations, then drop", "same") }
            tiers! { consumer_empty: unwind(8, 8), consumer_empty::<$n>(), consumer_empty::<$n>(),
                calls("konst::array::ArrayConsumer::empty"), bounds("N fixed", "same") }
            tiers! { consumer_clone: unwind(8, 8), consumer_clone::<$n>(), consumer_clone::<$n>(),
                calls("konst::array::ArrayConsumer::clone"), bounds("every split of taken-front / taken-back", "same") }
            tiers! { builder_ops: unwind(8, 8), builder_ops::<$n>(), builder_ops::<$n>(),
                calls("konst::array::ArrayBuilder::{new,push,as_slice,build,drop}"), bounds("every fill level 0..=N", "same") }
            tiers! { builder_clone: unwind(8, 8), builder_clone::<$n>(), builder_clone::<$n>(),
                calls("konst::array::ArrayBuilder::clone"), bounds("every fill level 0..=N", "same") }
            tiers! { map_by_value_moves: unwind(8, 8), map_by_value_moves::<$n>(), map_by_value_moves::<$n>(),
                calls("konst::array::map_!"), bounds("every payload", "same") }
            tiers! { map_by_value_drops: unwind(8, 8), map_by_value_drops::<$n>(), map_by_value_drops::<$n>(),
                calls("konst::array::map_!"), bounds("every payload", "same") }
        }
    )* };
}
per_n! { n0: 0; n1: 1; n3: 3; n4: 4; }

tiers! { #[kani::should_panic] consumer_assert_nonempty_panics: unwind(8, 8), consumer_assert_nonempty_panics::<3>(), consumer_assert_nonempty_panics::<4>(),
    calls("konst::array::ArrayConsumer::assert_is_empty"), bounds("N=3, 0..=2 elements taken", "N=4"), panics_in("assert_is_empty") }
