//! C10 — iterator-DSL method chains evaluate like the same std Iterator chains.
//!
//! The programs are generated (gen/c10.py: typed enumeration of source + adapter prefix + consumer);
//! this module only holds the hand-written cases that do not fit the generator's scheme.
use crate::util::*;

/// `collect_const!` can only take constant input (its body is a `const`); these constant instances
/// are compiled and compared with std as a smoke test and are NOT counted as solver coverage.
fn collect_const_smoke() {
    const A: [u8; 3] = konst::iter::collect_const!(u8 => &[1u8, 2, 3, 4, 5, 6], copied(), filter(|e| *e % 2 == 0));
    assert!(A[0] == 2 && A[1] == 4 && A[2] == 6);
    const B: [(usize, u8); 2] = konst::iter::collect_const!((usize, u8) => 10u8..14, skip(1), take(2), enumerate());
    assert!(B[0].0 == 0 && B[0].1 == 11 && B[1].0 == 1 && B[1].1 == 12);
    const C: [u8; 0] = konst::iter::collect_const!(u8 => 5u8..5);
    assert!(C.len() == 0);
    const D: [u8; 4] = konst::iter::collect_const!(u8 => &[[1u8, 2], [3, 4]], flatten(), copied(), rev());
    assert!(D[0] == 4 && D[1] == 3 && D[2] == 2 && D[3] == 1);
    must_reach!("constants compared");
}
tiers! { collect_const_smoke: unwind(8, 8), collect_const_smoke(), collect_const_smoke(),
    calls("konst::iter::collect_const!"), bounds("4 constant chains (concrete; not solver coverage)", "same") }
