//! C07 — char iteration and char<->UTF-8/u32 conversions agree with std.
use crate::util::*;
use konst::{chr, string as kstr};

/// explicit valid-value check for a produced `char` (CBMC sees a char as its u32 bits)
#[inline]
fn char_ok(c: char) -> bool {
    let n = c as u32;
    n < 0xD800 || (0xE000 <= n && n <= 0x10FFFF)
}

/// every `char`: UTF-8 encoding equals std's (whole domain, no bound)
fn encode_utf8_all_chars() {
    let c: char = kani::any();
    let enc = chr::encode_utf8(c);
    let mut buf = [0u8; 4];
    let want = c.encode_utf8(&mut buf).as_bytes();
    let got = enc.as_bytes();
    assert!(got.len() == want.len());
    let mut i = 0;
    while i < want.len() {
        assert!(got[i] == want[i]);
        i += 1;
    }
    let s = enc.as_str();
    assert!(s.len() == want.len() && s.as_ptr() == got.as_ptr());
    assert!(valid_utf8(got));
    must_reach!(want.len() == 4, "4-byte char");
    must_reach!(c as u32 == 0xE000, "first char after the surrogate gap");
}

/// every `u32`: checked conversion succeeds exactly for scalar values and returns that char
fn from_u32_all() {
    let n: u32 = kani::any();
    assert!(chr::from_u32(n) == char::from_u32(n));
    match chr::from_u32(n) {
        Some(c) => assert!(c as u32 == n && char_ok(c)),
        None => assert!((0xD800..=0xDFFF).contains(&n) || n > 0x10FFFF),
    }
    must_reach!(n == 0xD7FF, "last scalar before the surrogates");
    must_reach!(n == 0x110000, "first value above char::MAX");
}

/// chars(): symbolic front/back choice per step, item and as_str() equal to std's, to exhaustion
fn chars_interleaved<const CAP: usize>() {
    sym_str!(s, CAP);
    let mut k = kstr::chars(s);
    let mut st = s.chars();
    let mut steps = 0usize;
    let mut backs = 0usize;
    loop {
        let back: bool = kani::any();
        let (kn, sn) = if back { (k.copy().next_back(), st.next_back()) } else { (k.copy().next(), st.next()) };
        match (kn, sn) {
            (None, None) => break,
            (Some((c, rest)), Some(sc)) => {
                assert!(c == sc && char_ok(c));
                k = rest;
                let (a, b) = (k.as_str(), st.as_str());
                assert!(a.len() == b.len() && (a.is_empty() || a.as_ptr() == b.as_ptr()));
            }
            _ => assert!(false),
        }
        steps += 1;
        backs += back as usize;
    }
    // exhausted from either side stays exhausted
    assert!(k.copy().next().is_none() && k.copy().next_back().is_none());
    must_reach!(steps >= 2 && backs >= 1 && backs < steps && s.len() == CAP, "mixed front/back steps on a full-length string");
    must_reach!(steps == 1 && s.len() == 4, "one 4-byte char");
}

/// chars().rev(): `next` of the reversed iterator is std's next_back, and vice versa
fn chars_rev_interleaved<const CAP: usize>() {
    sym_str!(s, CAP);
    let mut k = kstr::chars(s).rev();
    let mut st = s.chars().rev();
    let mut steps = 0usize;
    loop {
        let back: bool = kani::any();
        let (kn, sn) = if back { (k.copy().next_back(), st.next_back()) } else { (k.copy().next(), st.next()) };
        match (kn, sn) {
            (None, None) => break,
            (Some((c, rest)), Some(sc)) => {
                assert!(c == sc);
                k = rest;
            }
            _ => assert!(false),
        }
        steps += 1;
    }
    // rev().rev() is the forward iterator again
    let mut f = kstr::chars(s).rev().rev();
    assert!(f.as_str().len() == s.len());
    match (f.next(), s.chars().next()) {
        (None, None) => {}
        (Some((c, _)), Some(sc)) => assert!(c == sc),
        _ => assert!(false),
    }
    must_reach!(steps >= 2 && s.len() == CAP, "two or more steps on a full-length string");
}

fn char_indices_interleaved<const CAP: usize>() {
    sym_str!(s, CAP);
    let mut k = kstr::char_indices(s);
    let mut st = s.char_indices();
    let mut steps = 0usize;
    let mut backs = 0usize;
    loop {
        let back: bool = kani::any();
        let (kn, sn) = if back { (k.copy().next_back(), st.next_back()) } else { (k.copy().next(), st.next()) };
        match (kn, sn) {
            (None, None) => break,
            (Some(((i, c), rest)), Some((si, sc))) => {
                assert!(i == si && c == sc);
                k = rest;
                let (a, b) = (k.as_str(), st.as_str());
                assert!(a.len() == b.len() && (a.is_empty() || a.as_ptr() == b.as_ptr()));
            }
            _ => assert!(false),
        }
        steps += 1;
        backs += back as usize;
    }
    assert!(k.copy().next().is_none() && k.copy().next_back().is_none());
    must_reach!(steps >= 2 && backs >= 1 && backs < steps && s.len() == CAP, "mixed front/back steps on a full-length string");
    must_reach!(steps == 2 && s.len() == 5, "a 2-byte and a 3-byte char (or 1+4)");
}

fn char_indices_rev_interleaved<const CAP: usize>() {
    sym_str!(s, CAP);
    let mut k = kstr::char_indices(s).rev();
    let mut st = s.char_indices().rev();
    let mut steps = 0usize;
    loop {
        let back: bool = kani::any();
        let (kn, sn) = if back { (k.copy().next_back(), st.next_back()) } else { (k.copy().next(), st.next()) };
        match (kn, sn) {
            (None, None) => break,
            (Some(((i, c), rest)), Some((si, sc))) => {
                assert!(i == si && c == sc);
                k = rest;
            }
            _ => assert!(false),
        }
        steps += 1;
    }
    must_reach!(steps >= 2 && s.len() == CAP, "two or more steps on a full-length string");
}

/// copying an iterator gives an independent iterator with the same future
fn chars_copy_independent<const CAP: usize>() {
    sym_str!(s, CAP);
    let it = kstr::char_indices(s);
    let cp = it.copy();
    if let Some((_, adv)) = cp.next() {
        let _ = adv.next_back();
        // the original is unaffected
        match (it.next(), s.char_indices().next()) {
            (Some(((i, c), _)), Some((si, sc))) => assert!(i == si && c == sc),
            _ => assert!(false),
        }
    }
    must_reach!(s.len() == CAP, "full-length string");
}

tiers! { encode_utf8_all_chars: unwind(6, 6), encode_utf8_all_chars(), encode_utf8_all_chars(),
    calls("konst::chr::encode_utf8", "konst::chr::Utf8Encoded::as_bytes", "konst::chr::Utf8Encoded::as_str"),
    bounds("every char (whole domain)", "every char (whole domain)"), exhaustive }
tiers! { from_u32_all: unwind(2, 2), from_u32_all(), from_u32_all(),
    calls("konst::chr::from_u32"), bounds("every u32 (whole domain)", "every u32 (whole domain)"), exhaustive }
tiers! { chars_interleaved: unwind(7, 9), chars_interleaved::<5>(), chars_interleaved::<7>(),
    calls("konst::string::chars", "konst::string::Chars::next", "konst::string::Chars::next_back", "konst::string::Chars::as_str", "konst::string::Chars::copy"),
    bounds("all valid UTF-8 strings <=5 bytes, every front/back interleaving to exhaustion", "<=7 bytes") }
tiers! { chars_rev_interleaved: unwind(7, 9), chars_rev_interleaved::<5>(), chars_rev_interleaved::<7>(),
    calls("konst::string::Chars::rev", "konst::string::RChars::next", "konst::string::RChars::next_back", "konst::string::RChars::rev"),
    bounds("all valid UTF-8 strings <=5 bytes, every interleaving", "<=7 bytes") }
tiers! { char_indices_interleaved: unwind(7, 9), char_indices_interleaved::<5>(), char_indices_interleaved::<7>(),
    calls("konst::string::char_indices", "konst::string::CharIndices::next", "konst::string::CharIndices::next_back", "konst::string::CharIndices::as_str"),
    bounds("all valid UTF-8 strings <=5 bytes, every interleaving", "<=7 bytes") }
tiers! { char_indices_rev_interleaved: unwind(7, 9), char_indices_rev_interleaved::<5>(), char_indices_rev_interleaved::<7>(),
    calls("konst::string::CharIndices::rev", "konst::string::RCharIndices::next", "konst::string::RCharIndices::next_back"),
    bounds("all valid UTF-8 strings <=5 bytes, every interleaving", "<=7 bytes") }
tiers! { chars_copy_independent: unwind(7, 9), chars_copy_independent::<5>(), chars_copy_independent::<7>(),
    calls("konst::string::CharIndices::copy"), bounds("<=5 bytes", "<=7 bytes") }
