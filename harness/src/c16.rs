//! C16 — comparison functions and macros agree with std equality and ordering.
//!
//! Oracle: `==` / `Ord::cmp` of std on the elements; for slices the lexicographic reference
//! `lex_cmp` / `lex_eq` (element-wise loop; std's slice `==`/`cmp` are memcmp-based, which only
//! costs unwinding) — tied to `<[T]>::cmp` by a native test.
use crate::util::*;
use core::cmp::Ordering;
use konst::{const_cmp, const_cmp_for, const_eq, const_eq_for};

pub fn lex_cmp<T: Ord>(a: &[T], b: &[T]) -> Ordering {
    let mut i = 0;
    loop {
        if i == a.len() || i == b.len() {
            return a.len().cmp(&b.len());
        }
        match a[i].cmp(&b[i]) {
            Ordering::Equal => i += 1,
            o => return o,
        }
    }
}
pub fn lex_eq<T: PartialEq>(a: &[T], b: &[T]) -> bool {
    if a.len() != b.len() {
        return false;
    }
    let mut i = 0;
    while i < a.len() {
        if a[i] != b[i] {
            return false;
        }
        i += 1;
    }
    true
}

pub fn diverge_stub(_: &[&[konst::const_panic::PanicVal<'_>]]) -> ! {
    panic!("concat_panic")
}

// ------------------------------------------------------------------ strings

fn str_cmp<const CAP: usize>() {
    sym_str!(a, CAP);
    sym_str!(b, CAP);
    let we = lex_eq(a.as_bytes(), b.as_bytes());
    let wc = lex_cmp(a.as_bytes(), b.as_bytes());
    assert!(konst::eq_str(a, b) == we);
    assert!(konst::cmp_str(a, b) == wc);
    assert!(const_eq!(a, b) == we);
    assert!(const_cmp!(a, b) == wc);
    assert!((wc == Ordering::Equal) == we);
    must_reach!(a.len() < b.len() && wc == Ordering::Greater, "shorter string is greater");
    must_reach!(a.len() == CAP && we, "equal full-length strings");
    must_reach!(a.len() < b.len() && wc == Ordering::Less && a.len() > 0 && a.as_bytes()[0] == b.as_bytes()[0], "proper prefix");
}

fn option_str_cmp<const CAP: usize>() {
    sym_str!(a0, CAP);
    sym_str!(b0, CAP);
    let a = if kani::any() { Some(a0) } else { None };
    let b = if kani::any() { Some(b0) } else { None };
    let we = match (a, b) {
        (Some(x), Some(y)) => lex_eq(x.as_bytes(), y.as_bytes()),
        (None, None) => true,
        _ => false,
    };
    let wc = match (a, b) {
        (Some(x), Some(y)) => lex_cmp(x.as_bytes(), y.as_bytes()),
        (None, None) => Ordering::Equal,
        (None, Some(_)) => Ordering::Less,
        (Some(_), None) => Ordering::Greater,
    };
    assert!(konst::eq_option_str(a, b) == we);
    assert!(konst::cmp_option_str(a, b) == wc);
    assert!(const_eq!(a, b) == we);
    assert!(const_cmp!(a, b) == wc);
    must_reach!(a.is_none() && b.is_some(), "None before Some");
    must_reach!(a.is_some() && b.is_some() && wc == Ordering::Greater, "Some > Some");
}

// ------------------------------------------------------------------ slices of primitives

macro_rules! slice_cmp_harnesses {
    ($($m:ident: $t:ty, $eq:ident, $cmp:ident, $oeq:ident, $ocmp:ident);* $(;)?) => { $(
        pub mod $m {
            use super::*;
            use konst::slice::cmp::{$eq, $cmp, $oeq, $ocmp};
            type T = $t;

            fn eq_fn<const CAP: usize>() {
                sym_slice!(a, T, CAP);
                sym_slice!(b, T, CAP);
                let we = lex_eq(a, b);
                assert!($eq(a, b) == we);
                assert!(const_eq!(a, b) == we);
                assert!(const_eq_for!(slice; a, b) == we);
                assert!(const_eq_for!(slice; a, b, |l, r| *l == *r) == we);
                must_reach!(a.len() == CAP && we, "equal full-length slices");
                must_reach!(a.len() == b.len() && !we && a.len() > 1 && a[0] == b[0], "differ after a common prefix");
                must_reach!(a.len() != b.len(), "different lengths");
            }
            fn cmp_fn<const CAP: usize>() {
                sym_slice!(a, T, CAP);
                sym_slice!(b, T, CAP);
                let wc = lex_cmp(a, b);
                assert!($cmp(a, b) == wc);
                must_reach!(a.len() < b.len() && wc == Ordering::Greater, "shorter slice is greater");
                must_reach!(a.len() > b.len() && wc == Ordering::Less, "longer slice is less");
                must_reach!(a.len() < b.len() && wc == Ordering::Less && a.len() > 0 && a[0] == b[0], "proper prefix");
            }
            fn cmp_macros<const CAP: usize>() {
                sym_slice!(a, T, CAP);
                sym_slice!(b, T, CAP);
                let wc = lex_cmp(a, b);
                assert!(const_cmp!(a, b) == wc);
                assert!(const_cmp_for!(slice; a, b) == wc);
                must_reach!(a.len() < b.len() && wc == Ordering::Greater, "shorter slice is greater");
                must_reach!(a.len() == CAP && wc == Ordering::Equal, "equal full-length slices");
            }
            fn option_fns<const CAP: usize>() {
                sym_slice!(a0, T, CAP);
                sym_slice!(b0, T, CAP);
                let a = if kani::any() { Some(a0) } else { None };
                let b = if kani::any() { Some(b0) } else { None };
                let we = match (a, b) {
                    (Some(x), Some(y)) => lex_eq(x, y),
                    (None, None) => true,
                    _ => false,
                };
                let wc = match (a, b) {
                    (Some(x), Some(y)) => lex_cmp(x, y),
                    (None, None) => Ordering::Equal,
                    (None, Some(_)) => Ordering::Less,
                    (Some(_), None) => Ordering::Greater,
                };
                assert!($oeq(a, b) == we);
                assert!($ocmp(a, b) == wc);
                assert!(const_eq!(a, b) == we);
                assert!(const_cmp!(a, b) == wc);
                must_reach!(a.is_none() && b.is_some(), "None before Some");
                must_reach!(a.is_some() && b.is_some() && wc == Ordering::Greater && a0.len() < b0.len(), "Some(shorter) > Some(longer)");
            }
            tiers! { eq_fn: unwind(5, 6), eq_fn::<3>(), eq_fn::<4>(),
                calls("konst::slice::cmp::eq_slice_*", "const_eq!", "const_eq_for!(slice)"),
                bounds("both slices <=3 elements, all element values", "<=4 elements") }
            tiers! { cmp_fn: unwind(5, 6), cmp_fn::<3>(), cmp_fn::<4>(),
                calls("konst::slice::cmp::cmp_slice_*"),
                bounds("both slices <=3 elements, all element values", "<=4 elements") }
            tiers! { cmp_macros: unwind(5, 6), cmp_macros::<3>(), cmp_macros::<4>(),
                calls("const_cmp!", "const_cmp_for!(slice)"),
                bounds("both slices <=3 elements, all element values", "<=4 elements") }
            tiers! { option_fns: unwind(5, 6), option_fns::<3>(), option_fns::<4>(),
                calls("konst::slice::cmp::eq_option_slice_*", "konst::slice::cmp::cmp_option_slice_*", "const_eq!(Option<&[T]>)", "const_cmp!(Option<&[T]>)"),
                bounds("both slices <=3 elements, all element values", "<=4 elements") }
        }
    )* };
}

slice_cmp_harnesses! {
    sl_u8: u8, eq_slice_u8, cmp_slice_u8, eq_option_slice_u8, cmp_option_slice_u8;
    sl_u16: u16, eq_slice_u16, cmp_slice_u16, eq_option_slice_u16, cmp_option_slice_u16;
    sl_u32: u32, eq_slice_u32, cmp_slice_u32, eq_option_slice_u32, cmp_option_slice_u32;
    sl_u64: u64, eq_slice_u64, cmp_slice_u64, eq_option_slice_u64, cmp_option_slice_u64;
    sl_u128: u128, eq_slice_u128, cmp_slice_u128, eq_option_slice_u128, cmp_option_slice_u128;
    sl_usize: usize, eq_slice_usize, cmp_slice_usize, eq_option_slice_usize, cmp_option_slice_usize;
    sl_i8: i8, eq_slice_i8, cmp_slice_i8, eq_option_slice_i8, cmp_option_slice_i8;
    sl_i16: i16, eq_slice_i16, cmp_slice_i16, eq_option_slice_i16, cmp_option_slice_i16;
    sl_i32: i32, eq_slice_i32, cmp_slice_i32, eq_option_slice_i32, cmp_option_slice_i32;
    sl_i64: i64, eq_slice_i64, cmp_slice_i64, eq_option_slice_i64, cmp_option_slice_i64;
    sl_i128: i128, eq_slice_i128, cmp_slice_i128, eq_option_slice_i128, cmp_option_slice_i128;
    sl_isize: isize, eq_slice_isize, cmp_slice_isize, eq_option_slice_isize, cmp_option_slice_isize;
    sl_char: char, eq_slice_char, cmp_slice_char, eq_option_slice_char, cmp_option_slice_char;
}

/// konst::slice::{eq_bytes, cmp_bytes} are the same functions under another path
fn bytes_alias<const CAP: usize>() {
    sym_slice!(a, u8, CAP);
    sym_slice!(b, u8, CAP);
    assert!(konst::slice::eq_bytes(a, b) == lex_eq(a, b));
    assert!(konst::slice::cmp_bytes(a, b) == lex_cmp(a, b));
    let oa = if kani::any() { Some(a) } else { None };
    let wc = match oa {
        Some(x) => lex_cmp(x, b),
        None => Ordering::Less,
    };
    assert!(konst::slice::cmp_option_bytes(oa, Some(b)) == wc);
    assert!(konst::slice::eq_option_bytes(oa, Some(b)) == (wc == Ordering::Equal));
    must_reach!(a.len() < b.len() && lex_cmp(a, b) == Ordering::Greater, "shorter slice is greater");
}

// ------------------------------------------------------------------ slices of strings / byte slices

fn slice_of_str_cmp() {
    // two slices of up to 2 strings of up to 2 bytes each
    sym_str!(a0, 2);
    sym_str!(a1, 2);
    sym_str!(b0, 2);
    sym_str!(b1, 2);
    let aa = [a0, a1];
    let bb = [b0, b1];
    let la: usize = kani::any();
    let lb: usize = kani::any();
    kani::assume(la <= 2 && lb <= 2);
    let (a, b) = (&aa[..la], &bb[..lb]);
    // reference: lexicographic over elements, each element lexicographic over bytes
    let mut wc = la.cmp(&lb);
    let mut we = la == lb;
    let mut i = 0;
    while i < la && i < lb {
        let c = lex_cmp(a[i].as_bytes(), b[i].as_bytes());
        if c != Ordering::Equal {
            wc = c;
            we = false;
            break;
        }
        i += 1;
    }
    assert!(konst::slice::cmp::eq_slice_str(a, b) == we);
    assert!(konst::slice::cmp::cmp_slice_str(a, b) == wc);
    assert!(const_eq!(a, b) == we);
    assert!(const_cmp!(a, b) == wc);
    must_reach!(la < lb && wc == Ordering::Greater, "shorter list is greater");
    must_reach!(la == 2 && we, "equal two-element lists");
}

fn slice_of_bytes_cmp() {
    sym_bytes!(a0, 2);
    sym_bytes!(a1, 2);
    sym_bytes!(b0, 2);
    sym_bytes!(b1, 2);
    let aa = [a0, a1];
    let bb = [b0, b1];
    let la: usize = kani::any();
    let lb: usize = kani::any();
    kani::assume(la <= 2 && lb <= 2);
    let (a, b) = (&aa[..la], &bb[..lb]);
    let mut wc = la.cmp(&lb);
    let mut we = la == lb;
    let mut i = 0;
    while i < la && i < lb {
        let c = lex_cmp(a[i], b[i]);
        if c != Ordering::Equal {
            wc = c;
            we = false;
            break;
        }
        i += 1;
    }
    assert!(konst::slice::cmp::eq_slice_bytes(a, b) == we);
    assert!(konst::slice::cmp::cmp_slice_bytes(a, b) == wc);
    assert!(const_eq!(a, b) == we);
    assert!(const_cmp!(a, b) == wc);
    let oa = if kani::any() { Some(a) } else { None };
    assert!(konst::slice::cmp::eq_option_slice_bytes(oa, Some(b)) == (oa.is_some() && we));
    assert!(konst::slice::cmp::cmp_option_slice_bytes(oa, Some(b)) == if oa.is_some() { wc } else { Ordering::Less });
    must_reach!(la < lb && wc == Ordering::Greater, "shorter list is greater");
    must_reach!(la == 2 && lb == 2 && wc == Ordering::Less && a[0].len() > b[0].len(), "longer first element is less");
}

// ------------------------------------------------------------------ scalars, Option of scalars

macro_rules! scalar_harnesses {
    ($($m:ident: $t:ty, $cmp:ident, $oeq:ident, $ocmp:ident);* $(;)?) => { $(
        pub mod $m {
            use super::*;
            use konst::primitive::cmp::{$cmp, $oeq, $ocmp};
            fn scalar() {
                let a: $t = kani::any();
                let b: $t = kani::any();
                assert!($cmp(a, b) == a.cmp(&b));
                assert!(const_cmp!(a, b) == a.cmp(&b));
                assert!(const_eq!(a, b) == (a == b));
                let oa: Option<$t> = kani::any();
                let ob: Option<$t> = kani::any();
                assert!($oeq(oa, ob) == (oa == ob));
                assert!($ocmp(oa, ob) == oa.cmp(&ob));
                assert!(const_eq!(oa, ob) == (oa == ob));
                assert!(const_cmp!(oa, ob) == oa.cmp(&ob));
                assert!(const_eq_for!(option; oa, ob) == (oa == ob));
                assert!(const_cmp_for!(option; oa, ob) == oa.cmp(&ob));
                must_reach!(a > b, "a > b");
                must_reach!(oa.is_none() && ob.is_some(), "None vs Some");
            }
            tiers! { scalar: unwind(2, 2), scalar(), scalar(),
                calls("konst::primitive::cmp::cmp_*", "konst::primitive::cmp::{eq,cmp}_option_*", "const_eq!", "const_cmp!", "const_eq_for!(option)", "const_cmp_for!(option)"),
                bounds("every pair of values of the type (whole domain)", "every pair of values (whole domain)"), exhaustive }
        }
    )* };
}

scalar_harnesses! {
    sc_u8: u8, cmp_u8, eq_option_u8, cmp_option_u8;
    sc_u16: u16, cmp_u16, eq_option_u16, cmp_option_u16;
    sc_u32: u32, cmp_u32, eq_option_u32, cmp_option_u32;
    sc_u64: u64, cmp_u64, eq_option_u64, cmp_option_u64;
    sc_u128: u128, cmp_u128, eq_option_u128, cmp_option_u128;
    sc_usize: usize, cmp_usize, eq_option_usize, cmp_option_usize;
    sc_i8: i8, cmp_i8, eq_option_i8, cmp_option_i8;
    sc_i16: i16, cmp_i16, eq_option_i16, cmp_option_i16;
    sc_i32: i32, cmp_i32, eq_option_i32, cmp_option_i32;
    sc_i64: i64, cmp_i64, eq_option_i64, cmp_option_i64;
    sc_i128: i128, cmp_i128, eq_option_i128, cmp_option_i128;
    sc_isize: isize, cmp_isize, eq_option_isize, cmp_option_isize;
    sc_char: char, cmp_char, eq_option_char, cmp_option_char;
}

macro_rules! nonzero_harnesses {
    ($($m:ident: $t:ident, $eq:ident, $cmp:ident, $oeq:ident, $ocmp:ident);* $(;)?) => { $(
        pub mod $m {
            use super::*;
            use konst::nonzero::cmp::{$eq, $cmp, $oeq, $ocmp};
            use core::num::$t;
            fn nonzero() {
                let a: $t = kani::any();
                let b: $t = kani::any();
                assert!($eq(a, b) == (a == b));
                assert!($cmp(a, b) == a.cmp(&b));
                assert!(const_eq!(a, b) == (a == b));
                assert!(const_cmp!(a, b) == a.cmp(&b));
                let oa: Option<$t> = if kani::any() { Some(a) } else { None };
                let ob: Option<$t> = if kani::any() { Some(b) } else { None };
                assert!($oeq(oa, ob) == (oa == ob));
                assert!($ocmp(oa, ob) == oa.cmp(&ob));
                assert!(const_eq!(oa, ob) == (oa == ob));
                assert!(const_cmp!(oa, ob) == oa.cmp(&ob));
                must_reach!(a > b, "a > b");
                must_reach!(oa.is_none() && ob.is_some(), "None vs Some");
            }
            tiers! { nonzero: unwind(2, 2), nonzero(), nonzero(),
                calls("konst::nonzero::cmp::{eq,cmp}_nonzero*", "konst::nonzero::cmp::{eq,cmp}_option_nonzero*", "const_eq!", "const_cmp!"),
                bounds("every pair of values of the type (whole domain)", "every pair (whole domain)"), exhaustive }
        }
    )* };
}

nonzero_harnesses! {
    nz_u8: NonZeroU8, eq_nonzerou8, cmp_nonzerou8, eq_option_nonzerou8, cmp_option_nonzerou8;
    nz_i8: NonZeroI8, eq_nonzeroi8, cmp_nonzeroi8, eq_option_nonzeroi8, cmp_option_nonzeroi8;
    nz_u16: NonZeroU16, eq_nonzerou16, cmp_nonzerou16, eq_option_nonzerou16, cmp_option_nonzerou16;
    nz_i16: NonZeroI16, eq_nonzeroi16, cmp_nonzeroi16, eq_option_nonzeroi16, cmp_option_nonzeroi16;
    nz_u32: NonZeroU32, eq_nonzerou32, cmp_nonzerou32, eq_option_nonzerou32, cmp_option_nonzerou32;
    nz_i32: NonZeroI32, eq_nonzeroi32, cmp_nonzeroi32, eq_option_nonzeroi32, cmp_option_nonzeroi32;
    nz_u64: NonZeroU64, eq_nonzerou64, cmp_nonzerou64, eq_option_nonzerou64, cmp_option_nonzerou64;
    nz_i64: NonZeroI64, eq_nonzeroi64, cmp_nonzeroi64, eq_option_nonzeroi64, cmp_option_nonzeroi64;
    nz_u128: NonZeroU128, eq_nonzerou128, cmp_nonzerou128, eq_option_nonzerou128, cmp_option_nonzerou128;
    nz_i128: NonZeroI128, eq_nonzeroi128, cmp_nonzeroi128, eq_option_nonzeroi128, cmp_option_nonzeroi128;
    nz_usize: NonZeroUsize, eq_nonzerousize, cmp_nonzerousize, eq_option_nonzerousize, cmp_option_nonzerousize;
    nz_isize: NonZeroIsize, eq_nonzeroisize, cmp_nonzeroisize, eq_option_nonzeroisize, cmp_option_nonzeroisize;
}

// ------------------------------------------------------------------ ranges, Ordering, markers

macro_rules! range_eq_harnesses {
    ($($m:ident: $t:ty, $eqr:ident, $eqri:ident);* $(;)?) => { $(
        pub mod $m {
            use super::*;
            use konst::range::cmp::{$eqr, $eqri};
            fn range_eq() {
                let (a, b, c, d): ($t, $t, $t, $t) = kani::any();
                let (r1, r2) = (a..b, c..d);
                assert!($eqr(&r1, &r2) == (r1 == r2));
                assert!(const_eq!(r1, r2) == (r1 == r2));
                assert!(const_eq_for!(range; r1, r2) == (r1 == r2));
                // never-iterated inclusive ranges (the only ones constructible in const context)
                let (i1, i2) = (a..=b, c..=d);
                assert!($eqri(&i1, &i2) == (i1 == i2));
                assert!(const_eq!(i1, i2) == (i1 == i2));
                assert!(const_eq_for!(range_inclusive; i1, i2) == (i1 == i2));
                must_reach!(a == c && b != d, "same start, different end");
                must_reach!(a == c && b == d && a > b, "equal inverted ranges");
            }
            tiers! { range_eq: unwind(2, 2), range_eq(), range_eq(),
                calls("konst::range::cmp::eq_range_*", "konst::range::cmp::eq_rangeinc_*", "const_eq!(Range)", "const_eq_for!(range)", "const_eq_for!(range_inclusive)"),
                bounds("every pair of ranges of the type that were never iterated (whole domain)", "same"), exhaustive }
        }
    )* };
}

range_eq_harnesses! {
    rg_u8: u8, eq_range_u8, eq_rangeinc_u8;
    rg_u16: u16, eq_range_u16, eq_rangeinc_u16;
    rg_u32: u32, eq_range_u32, eq_rangeinc_u32;
    rg_u64: u64, eq_range_u64, eq_rangeinc_u64;
    rg_u128: u128, eq_range_u128, eq_rangeinc_u128;
    rg_usize: usize, eq_range_usize, eq_rangeinc_usize;
    rg_char: char, eq_range_char, eq_rangeinc_char;
}

/// bool: only the equality half is claimed. Kani 0.68 / CBMC 6.11 mis-models the `<` operator on
/// `bool` (probe: `(x < y) == (!x & y)` FAILS for symbolic bools, while the counterexample passes
/// natively), and konst's `cmp_bool`/`cmp_slice_bool`/`cmp_option_bool` are written with `<`, so
/// their ordering cannot be decided soundly with this tool version (recorded in DESIGN.md).
fn bool_eq<const CAP: usize>() {
    use konst::primitive::cmp::eq_option_bool;
    use konst::slice::cmp::{eq_option_slice_bool, eq_slice_bool};
    let a: bool = kani::any();
    let b: bool = kani::any();
    assert!(const_eq!(a, b) == (a == b));
    let oa: Option<bool> = kani::any();
    let ob: Option<bool> = kani::any();
    assert!(eq_option_bool(oa, ob) == (oa == ob));
    assert!(const_eq!(oa, ob) == (oa == ob));
    sym_slice!(x, bool, CAP);
    sym_slice!(y, bool, CAP);
    let we = lex_eq(x, y);
    assert!(eq_slice_bool(x, y) == we);
    assert!(const_eq!(x, y) == we);
    let ox = if kani::any() { Some(x) } else { None };
    assert!(eq_option_slice_bool(ox, Some(y)) == (ox.is_some() && we));
    must_reach!(x.len() == CAP && we && a != b, "equal full-length bool slices");
    must_reach!(oa.is_none() && ob.is_some(), "None vs Some");
}
tiers! { bool_eq: unwind(5, 6), bool_eq::<3>(), bool_eq::<4>(),
    calls("konst::primitive::cmp::eq_option_bool", "konst::slice::cmp::eq_slice_bool", "konst::slice::cmp::eq_option_slice_bool", "const_eq!(bool)"),
    bounds("all bools; bool slices <=3", "bool slices <=4") }

fn any_ordering() -> Ordering {
    match kani::any::<u8>() % 3 {
        0 => Ordering::Less,
        1 => Ordering::Equal,
        _ => Ordering::Greater,
    }
}

fn ordering_and_markers() {
    use konst::other::cmp::*;
    let a = any_ordering();
    let b = any_ordering();
    assert!(eq_ordering(a, b) == (a == b));
    assert!(cmp_ordering(a, b) == a.cmp(&b));
    assert!(const_eq!(a, b) == (a == b));
    assert!(const_cmp!(a, b) == a.cmp(&b));
    let oa = if kani::any() { Some(a) } else { None };
    let ob = if kani::any() { Some(b) } else { None };
    assert!(eq_option_ordering(oa, ob) == (oa == ob));
    assert!(cmp_option_ordering(oa, ob) == oa.cmp(&ob));
    let p = core::marker::PhantomData::<u32>;
    assert!(eq_phantomdata(p, p) && cmp_phantomdata(p, p) == Ordering::Equal);
    assert!(const_eq!(p, p) && const_cmp!(p, p) == Ordering::Equal);
    let pp = core::marker::PhantomPinned;
    assert!(eq_phantompinned(pp, pp) && cmp_phantompinned(pp, pp) == Ordering::Equal);
    must_reach!(a == Ordering::Greater && b == Ordering::Less, "Greater vs Less");
    must_reach!(oa.is_none() && ob.is_some(), "None vs Some");
}

// ------------------------------------------------------------------ order axioms, independent of std

fn order_axioms_bytes<const CAP: usize>() {
    sym_slice!(a, u8, CAP);
    sym_slice!(b, u8, CAP);
    sym_slice!(c, u8, CAP);
    let ab = konst::slice::cmp_bytes(a, b);
    let ba = konst::slice::cmp_bytes(b, a);
    let bc = konst::slice::cmp_bytes(b, c);
    let ac = konst::slice::cmp_bytes(a, c);
    assert!(ab == ba.reverse()); // antisymmetry / totality
    assert!((ab == Ordering::Equal) == konst::slice::eq_bytes(a, b));
    if ab != Ordering::Greater && bc != Ordering::Greater {
        assert!(ac != Ordering::Greater); // transitivity
    }
    must_reach!(ab == Ordering::Less && bc == Ordering::Less && a.len() > c.len(), "a < b < c with a longer than c");
}

fn order_axioms_str<const CAP: usize>() {
    sym_str!(a, CAP);
    sym_str!(b, CAP);
    sym_str!(c, CAP);
    let ab = konst::cmp_str(a, b);
    let ba = konst::cmp_str(b, a);
    let bc = konst::cmp_str(b, c);
    let ac = konst::cmp_str(a, c);
    assert!(ab == ba.reverse());
    assert!((ab == Ordering::Equal) == konst::eq_str(a, b));
    if ab != Ordering::Greater && bc != Ordering::Greater {
        assert!(ac != Ordering::Greater);
    }
    must_reach!(ab == Ordering::Less && bc == Ordering::Less && a.len() > c.len(), "a < b < c with a longer than c");
}

// ------------------------------------------------------------------ assertc_eq! / assertc_ne!

fn assertc_ok() {
    let a: u32 = kani::any();
    let b: u32 = kani::any();
    sym_str!(s, 3);
    sym_str!(t, 3);
    if a == b {
        konst::assertc_eq!(a, b);
    } else {
        konst::assertc_ne!(a, b);
    }
    if lex_eq(s.as_bytes(), t.as_bytes()) {
        konst::assertc_eq!(s, t);
    } else {
        konst::assertc_ne!(s, t);
    }
    must_reach!(a == b && !lex_eq(s.as_bytes(), t.as_bytes()), "equal ints, different strings");
    must_reach!(a != b && s.len() == 3 && lex_eq(s.as_bytes(), t.as_bytes()), "different ints, equal strings");
}
fn assertc_eq_panics() {
    let a: u32 = kani::any();
    let b: u32 = kani::any();
    kani::assume(a != b);
    konst::assertc_eq!(a, b);
    must_not_reach!("assertc_eq! returned for unequal values");
}
fn assertc_ne_panics() {
    sym_str!(s, 3);
    sym_str!(t, 3);
    kani::assume(lex_eq(s.as_bytes(), t.as_bytes()));
    konst::assertc_ne!(s, t);
    must_not_reach!("assertc_ne! returned for equal values");
}

tiers! { str_cmp: unwind(5, 7), str_cmp::<3>(), str_cmp::<5>(),
    calls("konst::eq_str", "konst::cmp_str", "const_eq!(&str)", "const_cmp!(&str)"),
    bounds("both strings <=3 bytes valid UTF-8", "<=5 bytes") }
tiers! { option_str_cmp: unwind(5, 7), option_str_cmp::<3>(), option_str_cmp::<5>(),
    calls("konst::eq_option_str", "konst::cmp_option_str", "const_eq!(Option<&str>)", "const_cmp!(Option<&str>)"),
    bounds("both strings <=3 bytes valid UTF-8", "<=5 bytes") }
tiers! { bytes_alias: unwind(5, 6), bytes_alias::<3>(), bytes_alias::<4>(),
    calls("konst::slice::eq_bytes", "konst::slice::cmp_bytes", "konst::slice::eq_option_bytes", "konst::slice::cmp_option_bytes"),
    bounds("both slices <=3 bytes", "<=4 bytes") }
tiers! { slice_of_str_cmp: unwind(4, 4), slice_of_str_cmp(), slice_of_str_cmp(),
    calls("konst::slice::cmp::eq_slice_str", "konst::slice::cmp::cmp_slice_str", "const_eq!(&[&str])", "const_cmp!(&[&str])"),
    bounds("two lists of <=2 strings of <=2 bytes", "same") }
tiers! { slice_of_bytes_cmp: unwind(4, 4), slice_of_bytes_cmp(), slice_of_bytes_cmp(),
    calls("konst::slice::cmp::eq_slice_bytes", "konst::slice::cmp::cmp_slice_bytes", "konst::slice::cmp::{eq,cmp}_option_slice_bytes", "const_eq!(&[&[u8]])", "const_cmp!(&[&[u8]])"),
    bounds("two lists of <=2 byte slices of <=2 bytes", "same") }
tiers! { ordering_and_markers: unwind(2, 2), ordering_and_markers(), ordering_and_markers(),
    calls("konst::other::cmp::{eq_ordering,cmp_ordering,eq_option_ordering,cmp_option_ordering,eq_phantomdata,cmp_phantomdata,eq_phantompinned,cmp_phantompinned}"),
    bounds("all values", "all values"), exhaustive }
tiers! { order_axioms_bytes: unwind(5, 6), order_axioms_bytes::<3>(), order_axioms_bytes::<4>(),
    calls("konst::slice::cmp_bytes", "konst::slice::eq_bytes"),
    bounds("every triple of byte slices <=3 bytes", "<=4 bytes") }
tiers! { order_axioms_str: unwind(5, 6), order_axioms_str::<3>(), order_axioms_str::<4>(),
    calls("konst::cmp_str", "konst::eq_str"),
    bounds("every triple of strings <=3 bytes", "<=4 bytes") }
tiers! {
    #[kani::stub(konst::const_panic::concat_panic_::concat_panic, crate::c16::diverge_stub)]
    assertc_ok: unwind(40, 40), assertc_ok(), assertc_ok(),
    calls("konst::assertc_eq!", "konst::assertc_ne!"),
    bounds("every u32 pair; strings <=3 bytes", "same") }
tiers! {
    #[kani::should_panic]
    #[kani::stub(konst::const_panic::concat_panic_::concat_panic, crate::c16::diverge_stub)]
    assertc_eq_panics: unwind(40, 40), assertc_eq_panics(), assertc_eq_panics(),
    calls("konst::assertc_eq!"), bounds("every unequal u32 pair", "same"),
    panics_in("concat_panic") }
tiers! {
    #[kani::should_panic]
    #[kani::stub(konst::const_panic::concat_panic_::concat_panic, crate::c16::diverge_stub)]
    assertc_ne_panics: unwind(40, 40), assertc_ne_panics(), assertc_ne_panics(),
    calls("konst::assertc_ne!"), bounds("every equal pair of strings <=3 bytes", "same"),
    panics_in("concat_panic") }

// ------------------------------------------------------------------ known finding: exhausted RangeInclusive

/// std's `RangeInclusive` carries a private `exhausted` flag that takes part in `==`; konst compares
/// only start and end. A range that was iterated to exhaustion at run time therefore compares
/// equal in konst and unequal in std. (Never-iterated ranges are covered by `range_eq`.)
fn kf_rangeinclusive_exhausted() {
    let a: u8 = kani::any();
    let (c, d): (u8, u8) = kani::any();
    let mut r1 = a..=a;
    let _ = r1.next(); // r1 is now exhausted
    let r2 = c..=d;
    // (which (start,end) an exhausted range shows depends on the std version: 1.95 keeps `a..=a`
    //  and sets the flag; the std of Kani's toolchain steps start and sets the flag only when the
    //  step would overflow. Either way some never-iterated r2 has the same start and end.)
    assert!(konst::range::cmp::eq_rangeinc_u8(&r1, &r2) == (r1 == r2));
}
tiers! { kf_rangeinclusive_exhausted: unwind(2, 2), kf_rangeinclusive_exhausted(), kf_rangeinclusive_exhausted(),
    calls("konst::range::cmp::eq_rangeinc_u8"), bounds("every u8 single-element range after one next() against every fresh u8 range", "same"),
    kf_witness("rangeinclusive_exhausted") }

#[cfg(test)]
mod tests {
    use super::*;
    #[test]
    fn lex_refs_match_std() {
        let vals: [&[u8]; 8] = [&[], &[0], &[1], &[0, 1], &[1, 0], &[2], &[0, 0, 0], &[255, 1]];
        for a in vals {
            for b in vals {
                assert_eq!(lex_cmp(a, b), a.cmp(b));
                assert_eq!(lex_eq(a, b), a == b);
            }
        }
    }
}
