//! C01 — the safe API never triggers UB; results stay inside the input and are valid UTF-8.
//!
//! Every harness calls an unsafe-backed public function or macro form on fully symbolic arguments,
//! which puts each `unsafe` block on a path covered by Kani's built-in checks (out-of-bounds /
//! dangling / null dereference, `ptr.offset/add` leaving the allocation or overflowing `isize`,
//! `from_raw_parts` preconditions through core's `ub_checks`, arithmetic overflow, index out of
//! bounds, failed `assert!`/`unreachable!`), and asserts for every returned slice / string:
//! it lies inside the argument, and strings are valid UTF-8 cut on char boundaries of the argument.
//! Produced `char`s are checked for validity explicitly (`-Z valid-value-checks` ICEs in Kani 0.68).
//! Not modelled: aliasing models (Stacked/Tree Borrows), rustc's const-evaluator-only rules, reads
//! of uninitialised memory as such (CBMC makes them nondeterministic; arrays built from
//! `MaybeUninit` are therefore compared slot by slot in C11/C15 and here).
use crate::util::*;
use konst::{slice as ks, string as kstr};

#[inline]
fn str_ok(outer: &str, inner: &str) -> bool {
    valid_utf8(inner.as_bytes()) && str_inside(outer, inner)
}
#[inline]
fn opt_str_ok(outer: &str, inner: Option<&str>) -> bool {
    match inner {
        Some(x) => str_ok(outer, x),
        None => true,
    }
}

// ------------------------------------------------------------------ slices

fn slice_fns<T: kani::Arbitrary, const CAP: usize>() {
    let arr: [T; CAP] = kani::any();
    let len: usize = kani::any();
    kani::assume(len <= CAP);
    let s = &arr[..len];
    let i: usize = kani::any();
    let j: usize = kani::any();
    assert!(inside(s, ks::slice_from(s, i)));
    assert!(inside(s, ks::slice_up_to(s, i)));
    assert!(inside(s, ks::slice_range(s, i, j)));
    let (l, r) = ks::split_at(s, i);
    assert!(inside(s, l) && inside(s, r) && l.len() + r.len() == len);
    if let Some(x) = ks::get_from(s, i) {
        assert!(inside(s, x));
    }
    if let Some(x) = ks::get_up_to(s, i) {
        assert!(inside(s, x));
    }
    if let Some(x) = ks::get_range(s, i, j) {
        assert!(inside(s, x));
    }
    if let Some(x) = ks::get(s, i) {
        assert!(inside(s, core::slice::from_ref(x)));
    }
    must_reach!(i > 0 && i < j && j < len, "interior range");
    must_reach!(i == usize::MAX && j == usize::MAX, "indices usize::MAX");
}

fn slice_mut_fns<T: kani::Arbitrary, const CAP: usize>() {
    let mut arr: [T; CAP] = kani::any();
    let len: usize = kani::any();
    kani::assume(len <= CAP);
    let base = arr.as_ptr() as usize;
    let sz = core::mem::size_of::<T>().max(1);
    let i: usize = kani::any();
    let j: usize = kani::any();
    let which: u8 = kani::any();
    let s = &mut arr[..len];
    let got: &mut [T] = match which {
        0 => ks::slice_from_mut(s, i),
        1 => ks::slice_up_to_mut(s, i),
        2 => ks::slice_range_mut(s, i, j),
        3 => ks::split_at_mut(s, i).0,
        4 => ks::split_at_mut(s, i).1,
        5 => match ks::get_from_mut(s, i) { Some(x) => x, None => &mut [] },
        6 => match ks::get_up_to_mut(s, i) { Some(x) => x, None => &mut [] },
        _ => match ks::get_range_mut(s, i, j) { Some(x) => x, None => &mut [] },
    };
    if !got.is_empty() {
        let off = (got.as_ptr() as usize).wrapping_sub(base);
        // (zero-sized elements have no meaningful address: only the length is constrained)
        assert!(got.len() <= len && (core::mem::size_of::<T>() == 0 || (off % sz == 0 && off / sz + got.len() <= len)));
        // the returned slice is writable memory of the argument
        let k: usize = kani::any();
        kani::assume(k < got.len());
        got[k] = kani::any();
    }
    must_reach!(which == 2 && i > 0 && i < j && j < len, "interior range_mut");
    must_reach!(which == 4 && i == len && len > 0, "split_at_mut at len");
    must_reach!(which == 0 && i == usize::MAX, "index usize::MAX");
}

fn slice_arrays<T: kani::Arbitrary, const CAP: usize, const N: usize>() {
    let mut arr: [T; CAP] = kani::any();
    let len: usize = kani::any();
    kani::assume(len <= CAP);
    {
        let s = &arr[..len];
        if let Ok(a) = ks::try_into_array::<T, N>(s) {
            assert!(inside(s, &a[..]) && len == N);
        }
        let (c, r) = ks::as_chunks::<T, N>(s);
        assert!(c.len() * N + r.len() == len && inside(s, r));
        if !c.is_empty() {
            assert!(inside(s, &c[0][..]) && inside(s, &c[c.len() - 1][..]));
        }
        let (r2, c2) = ks::as_rchunks::<T, N>(s);
        assert!(c2.len() * N + r2.len() == len && inside(s, r2));
        if !c2.is_empty() {
            assert!(inside(s, &c2[0][..]) && inside(s, &c2[c2.len() - 1][..]));
        }
    }
    if let Ok(a) = ks::try_into_array_mut::<T, N>(&mut arr[..len]) {
        if N > 0 {
            a[N - 1] = kani::any();
        }
    }
    must_reach!(len == CAP, "full slice");
    must_reach!(len == N, "exact array length");
}

// ------------------------------------------------------------------ strings

fn str_slicing<const CAP: usize>() {
    sym_str!(s, CAP);
    let i: usize = kani::any();
    let j: usize = kani::any();
    assert!(opt_str_ok(s, kstr::get_from(s, i)));
    assert!(opt_str_ok(s, kstr::get_up_to(s, i)));
    assert!(opt_str_ok(s, kstr::get_range(s, i, j)));
    // clamping variants on their non-panicking domain
    let ok_i = i >= s.len() || s.is_char_boundary(i);
    let ok_j = j >= s.len() || s.is_char_boundary(j);
    if ok_i {
        assert!(str_ok(s, kstr::str_from(s, i)) && str_ok(s, kstr::str_up_to(s, i)));
        let (a, b) = kstr::split_at(s, i);
        assert!(str_ok(s, a) && str_ok(s, b));
    }
    if ok_i && ok_j {
        assert!(str_ok(s, kstr::str_range(s, i, j)));
    }
    must_reach!(i > 0 && i < j && j < s.len() && ok_i && ok_j && !s.is_char_boundary(i + 1), "interior range around a multi-byte char");
}

fn str_patterns<const CAP: usize, const N: usize, const CH: bool, const G: u8>() {
    sym_str!(s, CAP);
    sym_str!(ps, N);
    let c: char = kani::any();
    macro_rules! all {
        ($p:expr) => {{
            if G == 0 {
                assert!(opt_str_ok(s, kstr::strip_prefix(s, $p)));
                assert!(opt_str_ok(s, kstr::strip_suffix(s, $p)));
                assert!(str_ok(s, kstr::trim_matches(s, $p)));
                assert!(str_ok(s, kstr::trim_start_matches(s, $p)));
                assert!(str_ok(s, kstr::trim_end_matches(s, $p)));
            } else if G == 1 {
                assert!(opt_str_ok(s, kstr::find_skip(s, $p)));
                assert!(opt_str_ok(s, kstr::find_keep(s, $p)));
                assert!(opt_str_ok(s, kstr::rfind_skip(s, $p)));
                assert!(opt_str_ok(s, kstr::rfind_keep(s, $p)));
            } else {
                if let Some((a, b)) = kstr::split_once(s, $p) {
                    assert!(str_ok(s, a) && str_ok(s, b));
                }
                if let Some((a, b)) = kstr::rsplit_once(s, $p) {
                    assert!(str_ok(s, a) && str_ok(s, b));
                }
                match kstr::find(s, $p) {
                    Some(pos) => assert!(s.is_char_boundary(pos)),
                    None => {}
                }
                match kstr::rfind(s, $p) {
                    Some(pos) => assert!(pos <= s.len()),
                    None => {}
                }
            }
        }};
    }
    if CH { all!(c) } else { all!(ps) }
    if G == 0 {
        assert!(str_ok(s, kstr::trim(s)) && str_ok(s, kstr::trim_start(s)) && str_ok(s, kstr::trim_end(s)));
    }
    must_reach!(s.len() == CAP && s.as_bytes()[0] == b' ' && s.as_bytes()[CAP - 1] == b'\t', "whitespace at both ends");
    must_reach!(s.len() == CAP && !s.is_char_boundary(1), "string starting with a multi-byte char");
}

/// one step of every string iterator: items and remainders
fn str_iterators<const CAP: usize, const N: usize, const WHICH: u8>() {
    sym_str!(s, CAP);
    sym_str!(d, N);
    let which: u8 = WHICH;
    macro_rules! step {
        ($it:expr) => {{
            let it = $it;
            assert!(str_ok(s, it.remainder()));
            if let Some((piece, rest)) = it.next() {
                assert!(str_ok(s, piece) && str_ok(s, rest.remainder()));
                if let Some((piece2, rest2)) = rest.next() {
                    assert!(str_ok(s, piece2) && str_ok(s, rest2.remainder()));
                }
            }
        }};
    }
    match which {
        0 => step!(kstr::split(s, d)),
        1 => step!(kstr::rsplit(s, d)),
        2 => step!(kstr::split_terminator(s, d)),
        3 => step!(kstr::rsplit_terminator(s, d)),
        4 => {
            let it = kstr::chars(s);
            if let Some((ch, rest)) = it.next() {
                assert!(char::from_u32(ch as u32) == Some(ch) && str_ok(s, rest.as_str()));
                if let Some((ch2, rest2)) = rest.next_back() {
                    assert!(char::from_u32(ch2 as u32) == Some(ch2) && str_ok(s, rest2.as_str()));
                }
            }
        }
        _ => {
            let it = kstr::char_indices(s);
            if let Some(((i, ch), rest)) = it.next_back() {
                assert!(char::from_u32(ch as u32) == Some(ch) && s.is_char_boundary(i) && str_ok(s, rest.as_str()));
            }
        }
    }
    must_reach!(d.is_empty() && s.len() == CAP, "the empty delimiter, full-length string");
    must_reach!(d.len() == N && s.len() == CAP && !s.is_char_boundary(1), "multi-byte start");
}

fn chars_and_encoding() {
    let c: char = kani::any();
    let e = konst::chr::encode_utf8(c);
    assert!(valid_utf8(e.as_bytes()) && e.as_str().len() == c.len_utf8());
    let n: u32 = kani::any();
    if let Some(ch) = konst::chr::from_u32(n) {
        let v = ch as u32;
        assert!(v == n && (v < 0xD800 || (v >= 0xE000 && v <= 0x10FFFF)));
    }
    must_reach!(c.len_utf8() == 4, "4-byte char");
    must_reach!(n == 0xDFFF, "last surrogate");
}

// ------------------------------------------------------------------ byte-slice pattern functions

fn bytes_patterns<const CAP: usize, const N: usize>() {
    sym_bytes!(s, CAP);
    sym_bytes!(p, N);
    macro_rules! o {
        ($e:expr) => {
            if let Some(x) = $e {
                assert!(inside(s, x));
            }
        };
    }
    o!(ks::bytes_strip_prefix(s, p));
    o!(ks::bytes_strip_suffix(s, p));
    o!(ks::bytes_find_skip(s, p));
    o!(ks::bytes_find_keep(s, p));
    o!(ks::bytes_rfind_skip(s, p));
    o!(ks::bytes_rfind_keep(s, p));
    assert!(inside(s, ks::bytes_trim(s)) && inside(s, ks::bytes_trim_start(s)) && inside(s, ks::bytes_trim_end(s)));
    assert!(inside(s, ks::bytes_trim_matches(s, p)));
    assert!(inside(s, ks::bytes_trim_start_matches(s, p)));
    assert!(inside(s, ks::bytes_trim_end_matches(s, p)));
    if let Some(pos) = ks::bytes_find(s, p) {
        assert!(pos + p.len() <= s.len());
    }
    if let Some(pos) = ks::bytes_rfind(s, p) {
        assert!(pos <= s.len());
    }
    must_reach!(s.len() == CAP && p.len() == N && ks::bytes_contain(s, p), "full-length needle found");
    must_reach!(p.len() > s.len(), "needle longer than the input");
}

// ------------------------------------------------------------------ slice iterators (one step each end)

fn slice_iterators<T: kani::Arbitrary, const CAP: usize>() {
    let arr: [T; CAP] = kani::any();
    let len: usize = kani::any();
    kani::assume(len <= CAP);
    let s = &arr[..len];
    let n: usize = kani::any();
    kani::assume(n >= 1);
    let which: u8 = kani::any();
    macro_rules! two {
        ($it:expr) => {{
            let it = $it;
            if let Some((a, rest)) = it.next() {
                assert!(inside(s, a));
                if let Some((b, _)) = rest.next_back() {
                    assert!(inside(s, b));
                }
            }
        }};
    }
    match which {
        0 => two!(ks::windows(s, n)),
        1 => two!(ks::chunks(s, n)),
        2 => two!(ks::rchunks(s, n)),
        3 => {
            let it = ks::chunks_exact(s, n);
            assert!(inside(s, it.remainder()));
            two!(it)
        }
        4 => {
            let it = ks::rchunks_exact(s, n);
            assert!(inside(s, it.remainder()));
            two!(it)
        }
        5 => {
            let it = ks::array_chunks::<T, 2>(s);
            assert!(inside(s, it.remainder()));
            if let Some((a, rest)) = it.next() {
                assert!(inside(s, &a[..]));
                if let Some((b, _)) = rest.next_back() {
                    assert!(inside(s, &b[..]));
                }
            }
        }
        _ => {
            let it = ks::iter(s);
            if let Some((a, rest)) = it.next() {
                assert!(inside(s, core::slice::from_ref(a)) && inside(s, rest.as_slice()));
                if let Some((b, _)) = rest.next_back() {
                    assert!(inside(s, core::slice::from_ref(b)));
                }
            }
        }
    }
    must_reach!(which == 1 && n == 2 && len == CAP, "chunks of 2 over a full slice");
    must_reach!(which == 4 && n > len && len > 0, "rchunks_exact with a size larger than the slice");
    must_reach!(n == usize::MAX, "size usize::MAX");
}

// ------------------------------------------------------------------ CStr, MaybeUninit, ManuallyDrop, NonNull, option

fn cstr_fns<const CAP: usize>() {
    sym_bytes!(b, CAP);
    if let Ok(c) = konst::ffi::cstr::from_bytes_until_nul(b) {
        let t = konst::ffi::cstr::to_bytes_with_nul(c);
        assert!(inside(b, t) && t[t.len() - 1] == 0);
        assert!(inside(b, konst::ffi::cstr::to_bytes(c)));
        if let Ok(st) = konst::ffi::cstr::to_str(c) {
            assert!(valid_utf8(st.as_bytes()) && inside(b, st.as_bytes()));
        }
    }
    if let Ok(c) = konst::ffi::cstr::from_bytes_with_nul(b) {
        assert!(inside(b, konst::ffi::cstr::to_bytes_with_nul(c)));
    }
    must_reach!(b.len() == CAP && b[CAP - 1] == 0 && b[0] >= 0x80, "nul-terminated non-ASCII input");
    must_reach!(b.len() == CAP && b[1] == 0, "interior nul");
}

fn small_wrappers() {
    use core::mem::{ManuallyDrop, MaybeUninit};
    let v: u32 = kani::any();
    let mut mu = MaybeUninit::<u32>::uninit();
    let r = konst::maybe_uninit::write(&mut mu, v);
    assert!(*r == v);
    *r = v ^ 1;
    assert!(unsafe { mu.assume_init() } == v ^ 1);
    let mut mu2 = MaybeUninit::<[u8; 3]>::uninit();
    let p = konst::maybe_uninit::as_mut_ptr(&mut mu2);
    assert!(p as usize == mu2.as_ptr() as usize);
    let vals: [u16; 3] = kani::any();
    let mut ua = konst::maybe_uninit::uninit_array::<u16, 3>();
    let mut i = 0;
    while i < 3 {
        ua[i] = MaybeUninit::new(vals[i]);
        i += 1;
    }
    let arr = unsafe { konst::maybe_uninit::array_assume_init(ua) };
    assert!(arr[0] == vals[0] && arr[1] == vals[1] && arr[2] == vals[2]);
    let z = konst::maybe_uninit::uninit_array::<u64, 0>();
    let _empty: [u64; 0] = unsafe { konst::maybe_uninit::array_assume_init(z) };
    let mut md = ManuallyDrop::new(v);
    assert!(*konst::manually_drop::as_inner(&md) == v);
    *konst::manually_drop::as_inner_mut(&mut md) = v ^ 2;
    assert!(*md == v ^ 2);
    let x: u16 = kani::any();
    let nn = konst::ptr::nonnull::from_ref(&x);
    assert!(nn.as_ptr() as usize == &x as *const u16 as usize && unsafe { *nn.as_ref() } == x);
    let mut y: [u8; 2] = kani::any();
    let y0 = y[0];
    let nm = konst::ptr::nonnull::from_mut(&mut y[..]);
    assert!(nm.len() == 2 && unsafe { nm.as_ref()[0] } == y0);
    let o: Option<&u32> = if kani::any() { Some(&v) } else { None };
    assert!(konst::option::copied(o) == o.copied());
    must_reach!("wrappers exercised");
}

/// destructure!: the raw-pointer reads of each arm (struct arm uses read_unaligned for packed structs)
#[repr(C, packed)]
struct Packed {
    a: u8,
    b: u32,
    c: u16,
    d: u64,
}
struct Plain {
    x: u16,
    y: [u8; 3],
}
fn destructure_reads() {
    let (a, b, c, d): (u8, u32, u16, u64) = kani::any();
    let p = Packed { a, b, c, d };
    konst::destructure! {Packed {a: a2, b: b2, c: c2, d: d2} = p}
    assert!(a2 == a && b2 == b && c2 == c && d2 == d);
    let (x, y): (u16, [u8; 3]) = kani::any();
    konst::destructure! {Plain {x: x2, y: y2} = Plain { x, y }}
    assert!(x2 == x && y2[0] == y[0] && y2[2] == y[2]);
    konst::destructure! {(t0, t1, t2) = (a, b, d)}
    assert!(t0 == a && t1 == b && t2 == d);
    let arr: [u32; 4] = kani::any();
    konst::destructure! {[e0, rest @ .., e3] = arr}
    assert!(e0 == arr[0] && e3 == arr[3] && rest[0] == arr[1] && rest[1] == arr[2]);
    must_reach!("all four destructure! arms exercised");
}

macro_rules! per_type {
    ($($m:ident: $t:ty);* $(;)?) => { $(
        pub mod $m {
            use super::*;
            tiers! { slice_fns: unwind(7, 10), slice_fns::<$t, 5>(), slice_fns::<$t, 8>(),
                calls("konst::slice::{slice_from,slice_up_to,slice_range,split_at,get,get_from,get_up_to,get_range}"),
                bounds("len<=5, indices: all usize", "len<=8") }
            tiers! { slice_mut_fns: unwind(7, 10), slice_mut_fns::<$t, 5>(), slice_mut_fns::<$t, 8>(),
                calls("konst::slice::{slice_from_mut,slice_up_to_mut,slice_range_mut,split_at_mut,get_from_mut,get_up_to_mut,get_range_mut}"),
                bounds("len<=5, indices: all usize", "len<=8") }
            tiers! { slice_arrays: unwind(7, 10), slice_arrays::<$t, 5, 2>(), slice_arrays::<$t, 8, 3>(),
                calls("konst::slice::{try_into_array,try_into_array_mut,as_chunks,as_rchunks}"),
                bounds("len<=5, N=2", "len<=8, N=3") }
            tiers! { slice_iterators: unwind(7, 10), slice_iterators::<$t, 5>(), slice_iterators::<$t, 8>(),
                calls("konst::slice::{iter,windows,chunks,rchunks,chunks_exact,rchunks_exact,array_chunks} + next/next_back/remainder/as_slice"),
                bounds("len<=5, every size >= 1", "len<=8") }
        }
    )* };
}
per_type! { t_u8: u8; t_u32: u32; t_arr3: [u8; 3]; t_unit: (); }

tiers! { str_slicing: unwind(7, 9), str_slicing::<5>(), str_slicing::<7>(),
    calls("konst::string::{get_from,get_up_to,get_range,str_from,str_up_to,str_range,split_at}"),
    bounds("every valid UTF-8 string <=5 bytes, indices: all usize (clamping variants on their non-panicking domain)", "<=7 bytes") }
tiers! { str_patterns_str_0: unwind(7, 9), str_patterns::<4, 2, false, 0>(), str_patterns::<6, 3, false, 0>(),
    calls("konst::string::{strip_prefix,strip_suffix,trim,trim_start,trim_end,trim_matches,trim_start_matches,trim_end_matches}::<&str>"),
    bounds("string <=4 bytes, str pattern <=2 bytes", "string <=6, pattern <=3") }
tiers! { str_patterns_char_0: unwind(7, 9), str_patterns::<4, 1, true, 0>(), str_patterns::<6, 1, true, 0>(),
    calls("konst::string::{strip_prefix,strip_suffix,trim,trim_start,trim_end,trim_matches,trim_start_matches,trim_end_matches}::<char>"),
    bounds("string <=4 bytes, every char", "string <=6") }
tiers! { str_patterns_str_1: unwind(7, 9), str_patterns::<4, 2, false, 1>(), str_patterns::<6, 3, false, 1>(),
    calls("konst::string::{find_skip,find_keep,rfind_skip,rfind_keep}::<&str>"),
    bounds("string <=4 bytes, str pattern <=2 bytes", "string <=6, pattern <=3") }
tiers! { str_patterns_char_1: unwind(7, 9), str_patterns::<4, 1, true, 1>(), str_patterns::<6, 1, true, 1>(),
    calls("konst::string::{find_skip,find_keep,rfind_skip,rfind_keep}::<char>"),
    bounds("string <=4 bytes, every char", "string <=6") }
tiers! { str_patterns_str_2: unwind(7, 9), str_patterns::<4, 2, false, 2>(), str_patterns::<6, 3, false, 2>(),
    calls("konst::string::{split_once,rsplit_once,find,rfind}::<&str>"),
    bounds("string <=4 bytes, str pattern <=2 bytes", "string <=6, pattern <=3") }
tiers! { str_patterns_char_2: unwind(7, 9), str_patterns::<4, 1, true, 2>(), str_patterns::<6, 1, true, 2>(),
    calls("konst::string::{split_once,rsplit_once,find,rfind}::<char>"),
    bounds("string <=4 bytes, every char", "string <=6") }
tiers! { str_iter_split: unwind(7, 9), str_iterators::<4, 2, 0>(), str_iterators::<6, 3, 0>(),
    calls("konst::string::split + next/next_back/remainder/as_str"),
    bounds("string <=4 bytes, delimiter <=2 bytes, two steps", "string <=6, delimiter <=3") }
tiers! { str_iter_rsplit: unwind(7, 9), str_iterators::<4, 2, 1>(), str_iterators::<6, 3, 1>(),
    calls("konst::string::rsplit + next/next_back/remainder/as_str"),
    bounds("string <=4 bytes, delimiter <=2 bytes, two steps", "string <=6, delimiter <=3") }
tiers! { str_iter_split_terminator: unwind(7, 9), str_iterators::<4, 2, 2>(), str_iterators::<6, 3, 2>(),
    calls("konst::string::split_terminator + next/next_back/remainder/as_str"),
    bounds("string <=4 bytes, delimiter <=2 bytes, two steps", "string <=6, delimiter <=3") }
tiers! { str_iter_rsplit_terminator: unwind(7, 9), str_iterators::<4, 2, 3>(), str_iterators::<6, 3, 3>(),
    calls("konst::string::rsplit_terminator + next/next_back/remainder/as_str"),
    bounds("string <=4 bytes, delimiter <=2 bytes, two steps", "string <=6, delimiter <=3") }
tiers! { str_iter_chars: unwind(7, 9), str_iterators::<4, 2, 4>(), str_iterators::<6, 3, 4>(),
    calls("konst::string::chars + next/next_back/remainder/as_str"),
    bounds("string <=4 bytes, delimiter <=2 bytes, two steps", "string <=6, delimiter <=3") }
tiers! { str_iter_char_indices: unwind(7, 9), str_iterators::<4, 2, 5>(), str_iterators::<6, 3, 5>(),
    calls("konst::string::char_indices + next/next_back/remainder/as_str"),
    bounds("string <=4 bytes, delimiter <=2 bytes, two steps", "string <=6, delimiter <=3") }
tiers! { chars_and_encoding: unwind(6, 6), chars_and_encoding(), chars_and_encoding(),
    calls("konst::chr::encode_utf8", "konst::chr::from_u32", "Utf8Encoded::{as_str,as_bytes}"),
    bounds("every char, every u32", "same"), exhaustive }
tiers! { bytes_patterns: unwind(7, 9), bytes_patterns::<4, 2>(), bytes_patterns::<6, 3>(),
    calls("konst::slice::bytes_{strip_prefix,strip_suffix,find,rfind,find_skip,find_keep,rfind_skip,rfind_keep,trim,trim_start,trim_end,trim_matches,trim_start_matches,trim_end_matches}"),
    bounds("input <=4 bytes, pattern <=2 bytes", "input <=6, pattern <=3") }
tiers! { cstr_fns: unwind(8, 10), cstr_fns::<5>(), cstr_fns::<7>(),
    calls("konst::ffi::cstr::{from_bytes_until_nul,from_bytes_with_nul,to_bytes_with_nul,to_bytes,to_str}"),
    bounds("every byte slice <=5 bytes", "<=7 bytes") }
tiers! { destructure_reads: unwind(5, 5), destructure_reads(), destructure_reads(),
    calls("konst::destructure! (packed struct, struct, tuple, array with rest)"), bounds("every field value", "same"), exhaustive }
tiers! { small_wrappers: unwind(5, 5), small_wrappers(), small_wrappers(),
    calls("konst::maybe_uninit::{write,as_mut_ptr,uninit_array,array_assume_init}", "konst::manually_drop::{as_inner,as_inner_mut}", "konst::ptr::nonnull::{from_ref,from_mut}", "konst::option::copied"),
    bounds("every value", "same"), exhaustive }
