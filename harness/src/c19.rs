//! C19 — Option/Result, rebind and min/max macros equal their std / `?` counterparts.
//!
//! Payloads are 8-bit and fully symbolic, closures are members of symbolically parameterised
//! families (`x ^ m`, `(x & m) != 0`, ...), so every harness is exhaustive in the values. Call counts
//! are observed through `Cell` counters and must equal std's. The rebind family is generated
//! (`gen/c19.py`).
use crate::util::*;
use core::cell::Cell;
use konst::{option, result};

/// function-path arguments are observed through this call counter (must equal std's)
static mut FN_CALLS: u32 = 0;
fn tick() {
    unsafe {
        FN_CALLS += 1;
    }
}
fn calls() -> u32 {
    unsafe { FN_CALLS }
}

fn f_map(x: u8) -> u8 {
    tick();
    x.wrapping_mul(3) ^ 0x5A
}
fn f_opt(x: u8) -> Option<u8> {
    tick();
    if x & 1 == 0 { Some(x >> 1) } else { None }
}
fn f_res(x: u8) -> Result<u8, u8> {
    tick();
    if x & 1 == 0 { Ok(x >> 1) } else { Err(!x) }
}
fn f_pred(x: &u8) -> bool {
    tick();
    *x & 4 != 0
}
fn f_none() -> Option<u8> {
    tick();
    Some(77)
}
fn f_zero() -> u8 {
    tick();
    42
}

fn option_closure_forms() {
    let o: Option<u8> = kani::any();
    let m: u8 = kani::any();
    let d: u8 = kani::any();
    let calls = Cell::new(0u8);
    let scalls = Cell::new(0u8);
    macro_rules! tick { ($c:ident, $e:expr) => {{ $c.set($c.get() + 1); $e }}; }

    assert!(option::unwrap_or!(o, d) == o.unwrap_or(d));
    // value arguments are evaluated exactly once whatever the receiver is (std: argument of a method call)
    assert!(option::unwrap_or!(o, tick!(calls, d ^ m)) == o.unwrap_or(tick!(scalls, d ^ m)));
    assert!(calls.get() == scalls.get(), "unwrap_or!: default expression evaluated a different number of times than std");
    assert!(option::ok_or!(o, tick!(calls, d ^ m)) == o.ok_or(tick!(scalls, d ^ m)));
    assert!(calls.get() == scalls.get(), "ok_or!: error expression evaluated a different number of times than std");
    assert!(option::unwrap_or_else!(o, || tick!(calls, d ^ m)) == o.unwrap_or_else(|| tick!(scalls, d ^ m)));
    assert!(calls.get() == scalls.get());
    assert!(option::ok_or!(o, d) == o.ok_or(d));
    assert!(option::ok_or_else!(o, || tick!(calls, d ^ m)) == o.ok_or_else(|| tick!(scalls, d ^ m)));
    assert!(calls.get() == scalls.get());
    assert!(option::map!(o, |x| tick!(calls, x ^ m)) == o.map(|x| tick!(scalls, x ^ m)));
    assert!(calls.get() == scalls.get());
    assert!(option::and_then!(o, |x| tick!(calls, if x & m != 0 { Some(x ^ d) } else { None }))
        == o.and_then(|x| tick!(scalls, if x & m != 0 { Some(x ^ d) } else { None })));
    assert!(calls.get() == scalls.get());
    assert!(option::or_else!(o, || tick!(calls, if m & 1 == 0 { Some(d) } else { None }))
        == o.or_else(|| tick!(scalls, if m & 1 == 0 { Some(d) } else { None })));
    assert!(calls.get() == scalls.get());
    assert!(option::filter!(o, |x| tick!(calls, (*x & m) != 0)) == o.filter(|x| tick!(scalls, (*x & m) != 0)));
    assert!(calls.get() == scalls.get());
    let oo: Option<Option<u8>> = kani::any();
    assert!(option::flatten!(oo) == oo.flatten());
    let v: u8 = kani::any();
    let oref: Option<&u8> = if kani::any() { Some(&v) } else { None };
    assert!(option::copied(oref) == oref.copied());
    must_reach!(o.is_none() && calls.get() == 5, "None: the two value arguments and the three fallback closures ran");
    must_reach!(o.is_some() && calls.get() == 5, "Some: the two value arguments and the three mapping closures ran");
}

fn option_fn_path_forms() {
    let o: Option<u8> = kani::any();
    macro_rules! same_calls {
        ($k:expr, $s:expr) => {{
            let c0 = calls();
            let kv = $k;
            let c1 = calls();
            let sv = $s;
            let c2 = calls();
            assert!(kv == sv);
            assert!(c1 - c0 == c2 - c1); // the function was called as often as std calls it
        }};
    }
    same_calls!(option::unwrap_or_else!(o, f_zero), o.unwrap_or_else(f_zero));
    same_calls!(option::ok_or_else!(o, f_zero), o.ok_or_else(f_zero));
    same_calls!(option::map!(o, f_map), o.map(f_map));
    same_calls!(option::and_then!(o, f_opt), o.and_then(f_opt));
    same_calls!(option::or_else!(o, f_none), o.or_else(f_none));
    same_calls!(option::filter!(o, f_pred), o.filter(f_pred));
    must_reach!(o == Some(6), "Some(6)");
    must_reach!(o.is_none(), "None");
}

fn result_closure_forms() {
    let r: Result<u8, u8> = kani::any();
    let m: u8 = kani::any();
    let d: u8 = kani::any();
    let calls = Cell::new(0u8);
    let scalls = Cell::new(0u8);
    macro_rules! tick { ($c:ident, $e:expr) => {{ $c.set($c.get() + 1); $e }}; }

    assert!(result::unwrap_or!(r, d) == r.unwrap_or(d));
    assert!(result::unwrap_or!(r, tick!(calls, d ^ m)) == r.unwrap_or(tick!(scalls, d ^ m)));
    assert!(calls.get() == scalls.get(), "result::unwrap_or!: default expression evaluated a different number of times than std");
    assert!(result::unwrap_or_else!(r, |e| tick!(calls, e ^ m)) == r.unwrap_or_else(|e| tick!(scalls, e ^ m)));
    assert!(calls.get() == scalls.get());
    let std_ueoe = match r { Ok(x) => { scalls.set(scalls.get() + 1); x ^ m } Err(e) => e };
    assert!(result::unwrap_err_or_else!(r, |x| tick!(calls, x ^ m)) == std_ueoe);
    assert!(calls.get() == scalls.get());
    assert!(result::ok!(r) == r.ok());
    assert!(result::err!(r) == r.err());
    assert!(result::map!(r, |x| tick!(calls, x ^ m)) == r.map(|x| tick!(scalls, x ^ m)));
    assert!(calls.get() == scalls.get());
    assert!(result::map_err!(r, |e| tick!(calls, e ^ m)) == r.map_err(|e| tick!(scalls, e ^ m)));
    assert!(calls.get() == scalls.get());
    assert!(result::and_then!(r, |x| tick!(calls, if x & m != 0 { Ok(x ^ d) } else { Err(x) }))
        == r.and_then(|x| tick!(scalls, if x & m != 0 { Ok(x ^ d) } else { Err(x) })));
    assert!(calls.get() == scalls.get());
    assert!(result::or_else!(r, |e| tick!(calls, if e & m != 0 { Ok::<u8, u8>(e ^ d) } else { Err(e) }))
        == r.or_else(|e| tick!(scalls, if e & m != 0 { Ok::<u8, u8>(e ^ d) } else { Err(e) })));
    assert!(calls.get() == scalls.get());
    must_reach!(r.is_ok() && calls.get() == 4, "Ok: the value argument and three closures ran");
    must_reach!(r.is_err() && calls.get() == 4, "Err: the value argument and three closures ran");
}

fn result_fn_path_forms() {
    let r: Result<u8, u8> = kani::any();
    macro_rules! same_calls {
        ($k:expr, $s:expr) => {{
            let c0 = calls();
            let kv = $k;
            let c1 = calls();
            let sv = $s;
            let c2 = calls();
            assert!(kv == sv);
            assert!(c1 - c0 == c2 - c1);
        }};
    }
    same_calls!(result::unwrap_or_else!(r, f_map), r.unwrap_or_else(f_map));
    same_calls!(result::unwrap_err_or_else!(r, f_map), match r { Ok(x) => f_map(x), Err(e) => e });
    same_calls!(result::map!(r, f_map), r.map(f_map));
    same_calls!(result::map_err!(r, f_map), r.map_err(f_map));
    same_calls!(result::and_then!(r, f_res), r.and_then(f_res));
    same_calls!(result::or_else!(r, f_res), r.or_else(f_res));
    must_reach!(r == Ok(6), "Ok(6)");
    must_reach!(r == Err(7), "Err(7)");
}

// ------------------------------------------------------------------ try_!, try_opt!

fn k_try(r: Result<u8, u8>, after: &Cell<u8>) -> Result<u8, u8> {
    let x = konst::try_!(r);
    after.set(after.get() + 1);
    Ok(x ^ 0xFF)
}
fn s_try(r: Result<u8, u8>, after: &Cell<u8>) -> Result<u8, u8> {
    let x = r?;
    after.set(after.get() + 1);
    Ok(x ^ 0xFF)
}
fn k_try_map_err(r: Result<u8, u8>, m: u8) -> Result<u8, u16> {
    let x = konst::try_!(r, map_err = |e| (e as u16) << 4 | m as u16);
    Ok(x ^ 0xFF)
}
fn k_try_map_err_noarg(r: Result<u8, u8>, m: u8) -> Result<u8, u16> {
    let x = konst::try_!(r, map_err = |_| m as u16);
    Ok(x ^ 0xFF)
}
fn s_try_map_err(r: Result<u8, u8>, m: u8) -> Result<u8, u16> {
    let x = r.map_err(|e| (e as u16) << 4 | m as u16)?;
    Ok(x ^ 0xFF)
}
fn k_try_opt(o: Option<u8>, after: &Cell<u8>) -> Option<u8> {
    let x = konst::try_opt!(o);
    after.set(after.get() + 1);
    Some(x ^ 0xFF)
}
fn s_try_opt(o: Option<u8>, after: &Cell<u8>) -> Option<u8> {
    let x = o?;
    after.set(after.get() + 1);
    Some(x ^ 0xFF)
}

fn try_macros() {
    let r: Result<u8, u8> = kani::any();
    let o: Option<u8> = kani::any();
    let m: u8 = kani::any();
    let (ka, sa) = (Cell::new(0u8), Cell::new(0u8));
    assert!(k_try(r, &ka) == s_try(r, &sa));
    assert!(ka.get() == sa.get());
    assert!(k_try_map_err(r, m) == s_try_map_err(r, m));
    assert!(k_try_map_err_noarg(r, m) == r.map(|x| x ^ 0xFF).map_err(|_| m as u16));
    assert!(k_try_opt(o, &ka) == s_try_opt(o, &sa));
    assert!(ka.get() == sa.get());
    must_reach!(r.is_err() && o.is_some(), "Err and Some");
    must_reach!(r.is_ok() && o.is_none(), "Ok and None");
}

// ------------------------------------------------------------------ min! / max! and friends

#[derive(Copy, Clone, PartialEq, Eq)]
struct Item {
    key: u8,
    id: u8,
}

fn minmax() {
    let a: u8 = kani::any();
    let b: u8 = kani::any();
    assert!(konst::min!(a, b) == core::cmp::min(a, b));
    assert!(konst::max!(a, b) == core::cmp::max(a, b));
    // which argument comes back on ties is observable through references
    let (ra, rb) = (&a, &b);
    let mn: &u8 = konst::min!(ra, rb);
    let mx: &u8 = konst::max!(ra, rb);
    // (bind std's result as `&u8` first: inside `ptr::eq(..)` the expected type `*const u8` would
    //  flow into `min::<*const u8>` and compare addresses)
    let smn: &u8 = core::cmp::min(ra, rb);
    let smx: &u8 = core::cmp::max(ra, rb);
    assert!(core::ptr::eq(mn, smn));
    assert!(core::ptr::eq(mx, smx));
    let sa: i16 = kani::any();
    let sb: i16 = kani::any();
    assert!(konst::min!(sa, sb) == core::cmp::min(sa, sb));
    assert!(konst::max!(sa, sb) == core::cmp::max(sa, sb));
    must_reach!(a == b, "tie");
    must_reach!(a > b && sa < sb, "a > b, sa < sb");
}

fn minmax_by() {
    let x = Item { key: kani::any(), id: 0 };
    let y = Item { key: kani::any(), id: 1 };
    let m: u8 = kani::any();
    // comparator family: compare the keys under a symbolic mask (many ties)
    let k_min = konst::min_by!(x, y, |l, r| konst::const_cmp!(l.key & m, r.key & m));
    let s_min = core::cmp::min_by(x, y, |l, r| (l.key & m).cmp(&(r.key & m)));
    assert!(k_min == s_min);
    let k_max = konst::max_by!(x, y, |l, r| konst::const_cmp!(l.key & m, r.key & m));
    let s_max = core::cmp::max_by(x, y, |l, r| (l.key & m).cmp(&(r.key & m)));
    assert!(k_max == s_max);
    must_reach!(x.key & m == y.key & m && x.key != y.key, "tie under the mask");
    must_reach!(k_min.id == 1, "second argument is the minimum");
}

fn minmax_by_key() {
    let x = Item { key: kani::any(), id: 0 };
    let y = Item { key: kani::any(), id: 1 };
    let m: u8 = kani::any();
    let k_min = konst::min_by_key!(x, y, |e| e.key & m);
    let s_min = core::cmp::min_by_key(x, y, |e| e.key & m);
    assert!(k_min == s_min);
    let k_max = konst::max_by_key!(x, y, |e| e.key & m);
    let s_max = core::cmp::max_by_key(x, y, |e| e.key & m);
    assert!(k_max == s_max);
    fn key_fn(e: &Item) -> u8 {
        e.key >> 2
    }
    assert!(konst::min_by_key!(x, y, key_fn) == core::cmp::min_by_key(x, y, key_fn));
    assert!(konst::max_by_key!(x, y, key_fn) == core::cmp::max_by_key(x, y, key_fn));
    must_reach!(x.key & m == y.key & m && x.key != y.key, "tie under the mask");
    must_reach!(k_max.id == 0, "first argument is the maximum");
}

tiers! { option_closure_forms: unwind(2, 2), option_closure_forms(), option_closure_forms(),
    calls("konst::option::{unwrap_or,unwrap_or_else,ok_or,ok_or_else,map,and_then,or_else,filter,flatten}!", "konst::option::copied"),
    bounds("every Option<u8>, every closure of the xor/mask families (256 x 256), call counts", "same"), exhaustive }
tiers! { option_fn_path_forms: unwind(2, 2), option_fn_path_forms(), option_fn_path_forms(),
    calls("konst::option::{unwrap_or_else,ok_or_else,map,and_then,or_else,filter}!(.., path)"),
    bounds("every Option<u8>", "same"), exhaustive }
tiers! { result_closure_forms: unwind(2, 2), result_closure_forms(), result_closure_forms(),
    calls("konst::result::{unwrap_or,unwrap_or_else,unwrap_err_or_else,ok,err,map,map_err,and_then,or_else}!"),
    bounds("every Result<u8,u8>, every closure of the xor/mask families, call counts", "same"), exhaustive }
tiers! { result_fn_path_forms: unwind(2, 2), result_fn_path_forms(), result_fn_path_forms(),
    calls("konst::result::{unwrap_or_else,unwrap_err_or_else,map,map_err,and_then,or_else}!(.., path)"),
    bounds("every Result<u8,u8>", "same"), exhaustive }
tiers! { try_macros: unwind(2, 2), try_macros(), try_macros(),
    calls("konst::try_!", "konst::try_!(.., map_err = ..)", "konst::try_opt!"),
    bounds("every Result<u8,u8> / Option<u8>", "same"), exhaustive }
tiers! { minmax: unwind(2, 2), minmax(), minmax(),
    calls("konst::min!", "konst::max!"), bounds("every u8 pair (by value and by reference), every i16 pair", "same"), exhaustive }
tiers! { minmax_by: unwind(2, 2), minmax_by(), minmax_by(),
    calls("konst::min_by!", "konst::max_by!"), bounds("every key pair, every mask comparator", "same"), exhaustive }
tiers! { minmax_by_key: unwind(2, 2), minmax_by_key(), minmax_by_key(),
    calls("konst::min_by_key!", "konst::max_by_key!"), bounds("every key pair, every mask key function, one fn-path key", "same"), exhaustive }
