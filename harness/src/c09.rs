//! C09 — range iteration yields exactly the values std ranges yield.
//!
//! `(start, end)` are fully symbolic (every pair of the type, incl. inverted, MIN/MAX and char pairs
//! across the surrogate gap); K symbolic front/back steps are compared item for item with std's
//! `Range` / `RangeInclusive` / `RangeFrom`, stepping on after exhaustion (must stay exhausted).
use crate::util::*;

macro_rules! steps {
    ($k:ident, $s:ident, $K:expr, $somes:ident, $backs:ident) => {
        let mut i = 0;
        while i < $K {
            let back: bool = kani::any();
            let (kn, sn) = if back { ($k.copy().next_back(), $s.next_back()) } else { ($k.copy().next(), $s.next()) };
            match (kn, sn) {
                (None, None) => {}
                (Some((x, rest)), Some(y)) => {
                    assert!(x == y);
                    $k = rest;
                    $somes += 1;
                    $backs += back as usize;
                }
                _ => assert!(false),
            }
            i += 1;
        }
    };
}

macro_rules! range_harnesses {
    ($($m:ident: $t:ty, $max:expr, $min:expr, $pred:expr);* $(;)?) => { $(
        pub mod $m {
            use super::*;
            type T = $t;

            fn excl<const K: usize>() {
                let a: T = kani::any();
                let b: T = kani::any();
                let (mut somes, mut backs) = (0usize, 0usize);
                let mut k = konst::iter::into_iter!(a..b);
                let mut s = a..b;
                steps!(k, s, K, somes, backs);
                must_reach!(somes == K && backs >= 1 && backs < K, "K items with mixed ends");
                must_reach!(a > b, "inverted range");
                must_reach!(somes >= 1 && somes < K && b == $max, "exhausted early, end at MAX");
                must_reach!(a == $min && somes >= 1, "start at MIN");
            }
            fn excl_rev<const K: usize>() {
                let a: T = kani::any();
                let b: T = kani::any();
                let (mut somes, mut backs) = (0usize, 0usize);
                let mut k = konst::iter::into_iter!(a..b).rev();
                let mut s = (a..b).rev();
                steps!(k, s, K, somes, backs);
                // reversing twice gives the forward iterator
                let f = konst::iter::into_iter!(a..b).rev().rev();
                match (f.next(), (a..b).next()) {
                    (None, None) => {}
                    (Some((x, _)), Some(y)) => assert!(x == y),
                    _ => assert!(false),
                }
                must_reach!(somes == K && backs >= 1 && backs < K, "K items with mixed ends");
                must_reach!(somes >= 1 && somes < K, "exhausted early");
            }
            fn incl<const K: usize>() {
                let a: T = kani::any();
                let b: T = kani::any();
                let (mut somes, mut backs) = (0usize, 0usize);
                let mut k = konst::iter::into_iter!(a..=b);
                let mut s = a..=b;
                steps!(k, s, K, somes, backs);
                must_reach!(somes == K && backs >= 1 && backs < K, "K items with mixed ends");
                must_reach!(a > b, "inverted range");
                must_reach!(somes >= 1 && somes < K && b == $max, "exhausted early, end at MAX");
                must_reach!(somes >= 1 && somes < K && a == $min && backs == somes, "exhausted at MIN from the back");
                must_reach!(a == $min && b == $max && somes == K, "full domain");
            }
            fn incl_rev<const K: usize>() {
                let a: T = kani::any();
                let b: T = kani::any();
                let (mut somes, mut backs) = (0usize, 0usize);
                let mut k = konst::iter::into_iter!(a..=b).rev();
                let mut s = (a..=b).rev();
                steps!(k, s, K, somes, backs);
                // also through a reference to the range (separate const_into_iter impl)
                let r = a..=b;
                let kr = konst::iter::into_iter!(&r);
                match (kr.next(), (a..=b).next()) {
                    (None, None) => {}
                    (Some((x, _)), Some(y)) => assert!(x == y),
                    _ => assert!(false),
                }
                must_reach!(somes == K && backs >= 1 && backs < K, "K items with mixed ends");
                must_reach!(somes >= 1 && somes < K && a == $min, "exhausted early, start at MIN");
            }
            fn from<const K: usize>() {
                let a: T = kani::any();
                // stepping past MAX panics (debug) / wraps (release) in std and konst alike: excluded
                kani::assume($pred(a, K));
                let mut k = konst::iter::into_iter!(a..);
                let mut s = a..;
                let mut i = 0;
                while i < K {
                    match (k.copy().next(), s.next()) {
                        (Some((x, rest)), Some(y)) => {
                            assert!(x == y);
                            k = rest;
                        }
                        _ => assert!(false),
                    }
                    i += 1;
                }
                must_reach!(a == $min, "from MIN");
                must_reach!(!$pred(a, K + 1), "last step lands on MAX");
            }

            /// The step that would move `start` past MAX: in the profile Kani models (overflow checks
            /// and debug assertions on) std's `RangeFrom::next` panics there, and so must konst's
            /// (`debug_assert!(!overflowed)`): it must neither saturate nor return quietly.
            fn from_overflow() {
                let d: u8 = kani::any();
                kani::assume(d <= 2);
                let a: T = kani::any();
                // a == MAX - d
                kani::assume($pred(a, d as usize) && !$pred(a, d as usize + 1));
                let mut k = konst::iter::into_iter!(a..);
                let mut s = a..;
                let mut i = 0;
                while i < d {
                    match (k.copy().next(), s.next()) {
                        (Some((x, rest)), Some(y)) => {
                            assert!(x == y);
                            k = rest;
                        }
                        _ => assert!(false),
                    }
                    i += 1;
                }
                let _r = k.next();
                must_not_reach!("RangeFromIter::next with start == MAX returned instead of overflowing like std");
            }

            tiers! { #[kani::should_panic] from_overflow: unwind(5, 5), from_overflow(), from_overflow(),
                calls("konst::iter::into_iter!(RangeFrom)", "RangeFromIter::next"),
                bounds("start in MAX-2..=MAX, stepped up to MAX, then one more step", "same"),
                panics_in("overflowed", "RangeFromIter", "next") }
            tiers! { excl: unwind(5, 8), excl::<3>(), excl::<6>(),
                calls("konst::iter::into_iter!(Range)", "RangeIter::next", "RangeIter::next_back", "RangeIter::copy"),
                bounds("every (start,end) pair of the type; 3 symbolic front/back steps", "every pair; 6 steps") }
            tiers! { excl_rev: unwind(5, 8), excl_rev::<3>(), excl_rev::<6>(),
                calls("RangeIter::rev", "RangeIterRev::next", "RangeIterRev::next_back", "RangeIterRev::rev"),
                bounds("every (start,end) pair of the type; 3 symbolic front/back steps", "every pair; 6 steps") }
            tiers! { incl: unwind(5, 8), incl::<3>(), incl::<6>(),
                calls("konst::iter::into_iter!(RangeInclusive)", "RangeInclusiveIter::next", "RangeInclusiveIter::next_back"),
                bounds("every (start,end) pair of the type; 3 symbolic front/back steps", "every pair; 6 steps") }
            tiers! { incl_rev: unwind(5, 8), incl_rev::<3>(), incl_rev::<6>(),
                calls("RangeInclusiveIter::rev", "RangeInclusiveIterRev::next", "RangeInclusiveIterRev::next_back", "konst::iter::into_iter!(&RangeInclusive)"),
                bounds("every (start,end) pair of the type; 3 symbolic front/back steps", "every pair; 6 steps") }
            tiers! { from: unwind(5, 8), from::<3>(), from::<6>(),
                calls("konst::iter::into_iter!(RangeFrom)", "RangeFromIter::next"),
                bounds("every start <= MAX-3; 3 steps", "every start <= MAX-6; 6 steps") }
        }
    )* };
}

macro_rules! int_pred {
    ($t:ty) => {
        |a: $t, k: usize| a <= <$t>::MAX - (k as $t)
    };
}

range_harnesses! {
    t_u8: u8, u8::MAX, u8::MIN, int_pred!(u8);
    t_u16: u16, u16::MAX, u16::MIN, int_pred!(u16);
    t_u32: u32, u32::MAX, u32::MIN, int_pred!(u32);
    t_u64: u64, u64::MAX, u64::MIN, int_pred!(u64);
    t_u128: u128, u128::MAX, u128::MIN, int_pred!(u128);
    t_usize: usize, usize::MAX, usize::MIN, int_pred!(usize);
    t_i8: i8, i8::MAX, i8::MIN, int_pred!(i8);
    t_i16: i16, i16::MAX, i16::MIN, int_pred!(i16);
    t_i32: i32, i32::MAX, i32::MIN, int_pred!(i32);
    t_i64: i64, i64::MAX, i64::MIN, int_pred!(i64);
    t_i128: i128, i128::MAX, i128::MIN, int_pred!(i128);
    t_isize: isize, isize::MAX, isize::MIN, int_pred!(isize);
    t_char: char, char::MAX, '\0', |a: char, k: usize| (a as u32) <= 0x10FFFF - (k as u32);
}

// ------------------------------------------------------------------ char: the surrogate gap

fn char_gap<const K: usize>() {
    let a: char = kani::any();
    let b: char = kani::any();
    kani::assume((a as u32) >= 0xD7FF - 2 && (a as u32) <= 0xD7FF);
    kani::assume((b as u32) >= 0xE000 && (b as u32) <= 0xE000 + 2);
    let (mut somes, mut backs) = (0usize, 0usize);
    let mut k = konst::iter::into_iter!(a..=b);
    let mut s = a..=b;
    steps!(k, s, K, somes, backs);
    must_reach!(somes == K, "K items around the surrogate gap");
    must_reach!(somes < K && somes >= 2, "range across the gap exhausted");
}
tiers! { char_gap: unwind(8, 8), char_gap::<6>(), char_gap::<5>(),
    calls("RangeInclusiveIter::<char>::next", "RangeInclusiveIter::<char>::next_back"),
    bounds("start in U+D7FD..=U+D7FF, end in U+E000..=U+E002, 6 steps (every interleaving)", "5 steps") }

// ------------------------------------------------------------------ the macro route

macro_rules! macro_route {
    ($($m:ident: $t:ty, $w:ty);* $(;)?) => { $(
        pub mod $m {
            use super::*;
            type T = $t;
            /// for_each! over `a..b`, `a..=b` (<= 4 items) and `a..` (first 3), in order
            fn fwd() {
                let a: T = kani::any();
                let b: T = kani::any();
                let mut s = a..b;
                let mut n = 0usize;
                kani::assume(a >= b || (b as $w).wrapping_sub(a as $w) <= 4);
                konst::iter::for_each! {x in a..b =>
                    assert!(Some(x) == s.next());
                    n += 1;
                }
                assert!(s.next().is_none());
                let c: T = kani::any();
                let d: T = kani::any();
                kani::assume(c > d || (d as $w).wrapping_sub(c as $w) <= 3);
                let mut s2 = c..=d;
                let mut n2 = 0usize;
                konst::iter::for_each! {x in c..=d =>
                    assert!(Some(x) == s2.next());
                    n2 += 1;
                }
                assert!(s2.next().is_none());
                must_reach!(n == 4, "4 items from a..b");
                must_reach!(n2 == 4 && d == T::MAX, "4 items from c..=MAX");
                must_reach!(n2 == 0 && n == 0, "both empty");
            }
            /// eval! with rev(): reverse order
            fn rev() {
                let a: T = kani::any();
                let b: T = kani::any();
                kani::assume(a >= b || (b as $w).wrapping_sub(a as $w) <= 4);
                let mut s = (a..b).rev();
                let mut n = 0usize;
                konst::iter::for_each! {x in a..b, rev() =>
                    assert!(Some(x) == s.next());
                    n += 1;
                }
                assert!(s.next().is_none());
                must_reach!(n == 4 && a == T::MIN, "4 items in reverse from MIN");
            }
            fn rev_fold() {
                let c: T = kani::any();
                let d: T = kani::any();
                kani::assume(c > d || (d as $w).wrapping_sub(c as $w) <= 3);
                let got: u64 = konst::iter::eval!(c..=d, rev(), fold(0u64, |acc, x| (acc << 3) ^ (x as u64)));
                let want: u64 = (c..=d).rev().fold(0u64, |acc, x| (acc << 3) ^ (x as u64));
                assert!(got == want);
                must_reach!(c == T::MIN && c < d, "inclusive range from MIN in reverse");
            }
            fn from_take() {
                let c: T = kani::any();
                // `c..` steps its start eagerly like std, and konst's `take(n)` pulls one more item from the
                // source than std before it stops, so the source must be able to step n+1 times (see DESIGN, C10 notes)
                kani::assume(c <= T::MAX - 4);
                let mut s = (c..).take(3);
                let mut n = 0;
                konst::iter::for_each! {x in c.., take(3) =>
                    assert!(Some(x) == s.next());
                    n += 1;
                }
                assert!(n == 3);
                must_reach!(c == T::MAX - 4, "closest start to MAX");
            }
            tiers! { fwd: unwind(7, 7), fwd(), fwd(),
                calls("konst::iter::for_each!(Range)", "konst::iter::for_each!(RangeInclusive)"),
                bounds("every pair with <=4 items", "every pair with <=4 items") }
            tiers! { rev: unwind(7, 7), rev(), rev(),
                calls("konst::iter::for_each!(Range, rev())"),
                bounds("every pair with <=4 items", "every pair with <=4 items") }
            tiers! { rev_fold: unwind(7, 7), rev_fold(), rev_fold(),
                calls("konst::iter::eval!(RangeInclusive, rev(), fold)"),
                bounds("every pair with <=4 items", "every pair with <=4 items") }
            tiers! { from_take: unwind(7, 7), from_take(), from_take(),
                calls("konst::iter::for_each!(RangeFrom, take(3))"),
                bounds("every start <= MAX-4", "every start <= MAX-4") }
        }
    )* };
}

macro_route! {
    mac_u8: u8, u8;
    mac_i8: i8, u8;
    mac_usize: usize, usize;
    mac_i64: i64, u64;
}

/// `konst::for_range!` (the plain counting loop macro): same values as `for x in a..b`, incl. inverted ranges
macro_rules! for_range_route {
    ($($m:ident: $t:ty, $u:ty);* $(;)?) => { $(
        pub mod $m {
            use super::*;
            fn for_range() {
                let a: $t = kani::any();
                let b: $t = kani::any();
                kani::assume(a >= b || (b as $u).wrapping_sub(a as $u) <= 4);
                let mut s = a..b;
                let mut n = 0usize;
                konst::for_range! {x in a..b =>
                    assert!(Some(x) == s.next());
                    n += 1;
                    assert!(n <= 4);
                }
                assert!(s.next().is_none());
                must_reach!(n == 4 && b == <$t>::MAX, "4 items up to MAX");
                must_reach!(a > b, "inverted range: no iteration");
                must_reach!(a == b, "empty range");
            }
            tiers! { for_range: unwind(7, 7), for_range(), for_range(),
                calls("konst::for_range!"), bounds("every (start,end) pair with <=4 items or inverted", "same") }
        }
    )* };
}
for_range_route! {
    fr_u8: u8, u8;
    fr_i8: i8, u8;
    fr_usize: usize, usize;
    fr_i32: i32, u32;
}

// ------------------------------------------------------------------ u8 to exhaustion

/// `a..=b` over u8 iterated to exhaustion from the front: quick = ranges of <= 8 items, thorough = every pair
fn u8_incl_to_exhaustion<const MAXLEN: usize>() {
    let a: u8 = kani::any();
    let b: u8 = kani::any();
    kani::assume(a > b || ((b - a) as usize) < MAXLEN);
    let mut k = konst::iter::into_iter!(a..=b);
    let mut s = a..=b;
    let mut n = 0usize;
    loop {
        match (k.copy().next(), s.next()) {
            (None, None) => break,
            (Some((x, rest)), Some(y)) => {
                assert!(x == y);
                k = rest;
                n += 1;
            }
            _ => assert!(false),
        }
    }
    must_reach!(n == MAXLEN && b == u8::MAX, "longest allowed range ending at MAX");
    must_reach!(n == 0, "empty (inverted) range");
}
tiers! { u8_incl_to_exhaustion: unwind(11, 259), u8_incl_to_exhaustion::<8>(), u8_incl_to_exhaustion::<256>(),
    calls("RangeInclusiveIter::<u8>::next"), bounds("every u8 pair with <=8 items, to exhaustion", "every u8 pair (all 65536), to exhaustion") }
