//! C04 — pattern search finds the same first / last occurrence as std.
//!
//! Oracle: naive windowed search (`util::naive_find` / `naive_rfind`) = "lowest / highest byte
//! offset at which the pattern occurs", which is what `str::find` / `str::rfind` compute.
//! Derived operations are recomputed from that offset.
use crate::util::*;
use konst::{slice as ks, string as kstr};

// ---------------------------------------------------------------- byte-slice patterns

fn bytes_find_slice<const H: usize, const N: usize>() {
    sym_bytes!(hay, H);
    sym_bytes!(pat, N);
    kani::assume(!pat.is_empty());
    let want = naive_find(hay, pat);
    assert!(ks::bytes_find(hay, pat) == want);
    assert!(ks::bytes_contain(hay, pat) == want.is_some());
    must_reach!(want == Some(1) && pat.len() == N, "match at 1 with a full-length needle");
    must_reach!(want.is_none() && hay.len() == H, "no match in a full-length haystack");
}

fn bytes_rfind_slice<const H: usize, const N: usize>() {
    sym_bytes!(hay, H);
    sym_bytes!(pat, N);
    kani::assume(!pat.is_empty());
    let want = naive_rfind(hay, pat);
    assert!(ks::bytes_rfind(hay, pat) == want);
    assert!(ks::bytes_rcontain(hay, pat) == want.is_some());
    must_reach!(want == Some(1) && pat.len() == N, "last match at 1 with a full-length needle");
    must_reach!(want.is_none() && hay.len() == H, "no match in a full-length haystack");
}

fn bytes_find_skip_keep<const H: usize, const N: usize>() {
    sym_bytes!(hay, H);
    sym_bytes!(pat, N);
    kani::assume(!pat.is_empty());
    let want = naive_find(hay, pat);
    let skip = ks::bytes_find_skip(hay, pat);
    let keep = ks::bytes_find_keep(hay, pat);
    match want {
        None => assert!(skip.is_none() && keep.is_none()),
        Some(p) => {
            let s = skip.unwrap();
            let k = keep.unwrap();
            assert!(is_sub(hay, s, p + pat.len(), hay.len() - p - pat.len()));
            assert!(is_sub(hay, k, p, hay.len() - p));
        }
    }
    must_reach!(want == Some(1) && pat.len() == N, "match at 1 with a full-length needle");
    must_reach!(want.is_none() && hay.len() == H, "no match");
}

fn bytes_rfind_skip_keep<const H: usize, const N: usize>() {
    sym_bytes!(hay, H);
    sym_bytes!(pat, N);
    kani::assume(!pat.is_empty());
    let want = naive_rfind(hay, pat);
    let skip = ks::bytes_rfind_skip(hay, pat);
    let keep = ks::bytes_rfind_keep(hay, pat);
    match want {
        None => assert!(skip.is_none() && keep.is_none()),
        Some(p) => {
            let s = skip.unwrap();
            let k = keep.unwrap();
            // rfind_skip: everything before the last match; rfind_keep: up to and including it
            assert!(is_sub(hay, s, 0, p));
            assert!(is_sub(hay, k, 0, p + pat.len()));
        }
    }
    must_reach!(want == Some(1) && pat.len() == N, "last match at 1 with a full-length needle");
    must_reach!(want.is_none() && hay.len() == H, "no match");
}

/// `&[u8; N]` pattern kind (a distinct `BytesPattern` impl), N fixed per instantiation.
fn bytes_find_array<const H: usize, const N: usize>() {
    sym_bytes!(hay, H);
    let pat: [u8; N] = kani::any();
    let wf = naive_find(hay, &pat);
    let wr = naive_rfind(hay, &pat);
    assert!(ks::bytes_find(hay, &pat) == wf);
    assert!(ks::bytes_contain(hay, &pat) == wf.is_some());
    if N != 0 {
        assert!(ks::bytes_rfind(hay, &pat) == wr);
        assert!(ks::bytes_rcontain(hay, &pat) == wr.is_some());
    }
    match (ks::bytes_find_skip(hay, &pat), wf) {
        (None, None) => {}
        (Some(s), Some(p)) => assert!(is_sub(hay, s, p + N, hay.len() - p - N)),
        _ => assert!(false),
    }
    must_reach!(wf.is_some() && wf != wr, "two distinct occurrences");
    must_reach!((N == 0 || wf.is_none()) && hay.len() == H, "no match (N>0) in a full-length haystack");
}

/// `str` and `char` used as byte-slice patterns (`BytesPattern for str` / `char`).
fn bytes_find_str_char<const H: usize, const N: usize>() {
    sym_bytes!(hay, H);
    sym_str!(pat, N);
    kani::assume(!pat.is_empty());
    assert!(ks::bytes_find(hay, pat) == naive_find(hay, pat.as_bytes()));
    assert!(ks::bytes_rfind(hay, pat) == naive_rfind(hay, pat.as_bytes()));
    let c: char = kani::any();
    let mut buf = [0u8; 4];
    let cb = c.encode_utf8(&mut buf).as_bytes();
    assert!(ks::bytes_find(hay, &c) == naive_find(hay, cb));
    assert!(ks::bytes_rfind(hay, &c) == naive_rfind(hay, cb));
    assert!(ks::bytes_contain(hay, &c) == naive_find(hay, cb).is_some());
    must_reach!(naive_find(hay, cb) == Some(1) && cb.len() == 3, "3-byte char found at 1");
    must_reach!(naive_find(hay, pat.as_bytes()) == Some(2), "str pattern found at 2");
}

// ---------------------------------------------------------------- empty pattern, forward

fn empty_pattern_forward<const H: usize>() {
    sym_bytes!(hay, H);
    let e: &[u8] = &[];
    assert!(ks::bytes_find(hay, e) == Some(0));
    assert!(ks::bytes_contain(hay, e));
    assert!(ks::bytes_find(hay, &[0u8; 0]) == Some(0));
    assert!(ks::bytes_find(hay, "") == Some(0));
    let s = ks::bytes_find_skip(hay, e).unwrap();
    let k = ks::bytes_find_keep(hay, e).unwrap();
    assert!(is_sub(hay, s, 0, hay.len()) && is_sub(hay, k, 0, hay.len()));
    sym_str!(st, H);
    assert!(kstr::find(st, "") == Some(0));
    assert!(kstr::contains(st, ""));
    assert!(kstr::find_skip(st, "").unwrap().len() == st.len());
    assert!(kstr::find_keep(st, "").unwrap().len() == st.len());
    let (a, b) = kstr::split_once(st, "").unwrap();
    assert!(a.is_empty() && b.len() == st.len());
    must_reach!(hay.len() == H && st.len() == H, "full-length inputs");
}

// ---------------------------------------------------------------- string functions, &str pattern

fn str_find_str<const H: usize, const N: usize>() {
    sym_str!(hay, H);
    sym_str!(pat, N);
    kani::assume(!pat.is_empty());
    let want = naive_find(hay.as_bytes(), pat.as_bytes());
    assert!(kstr::find(hay, pat) == want);
    assert!(kstr::contains(hay, pat) == want.is_some());
    must_reach!(want == Some(1) && pat.len() == N, "match at 1 with a full-length needle");
    must_reach!(want.is_none() && hay.len() == H, "no match");
}

fn str_rfind_str<const H: usize, const N: usize>() {
    sym_str!(hay, H);
    sym_str!(pat, N);
    kani::assume(!pat.is_empty());
    let want = naive_rfind(hay.as_bytes(), pat.as_bytes());
    assert!(kstr::rfind(hay, pat) == want);
    assert!(kstr::rcontains(hay, pat) == want.is_some());
    must_reach!(want == Some(1) && pat.len() == N, "last match at 1 with a full-length needle");
    must_reach!(want.is_none() && hay.len() == H, "no match");
}

fn str_find_skip_keep_str<const H: usize, const N: usize>() {
    sym_str!(hay, H);
    sym_str!(pat, N);
    kani::assume(!pat.is_empty());
    let hb = hay.as_bytes();
    let want = naive_find(hb, pat.as_bytes());
    let skip = kstr::find_skip(hay, pat);
    let keep = kstr::find_keep(hay, pat);
    match want {
        None => assert!(skip.is_none() && keep.is_none()),
        Some(p) => {
            assert!(is_sub(hb, skip.unwrap().as_bytes(), p + pat.len(), hb.len() - p - pat.len()));
            assert!(is_sub(hb, keep.unwrap().as_bytes(), p, hb.len() - p));
        }
    }
    must_reach!(want == Some(1) && pat.len() == N, "match at 1 with a full-length needle");
}

fn str_rfind_skip_keep_str<const H: usize, const N: usize>() {
    sym_str!(hay, H);
    sym_str!(pat, N);
    kani::assume(!pat.is_empty());
    let hb = hay.as_bytes();
    let want = naive_rfind(hb, pat.as_bytes());
    let skip = kstr::rfind_skip(hay, pat);
    let keep = kstr::rfind_keep(hay, pat);
    match want {
        None => assert!(skip.is_none() && keep.is_none()),
        Some(p) => {
            assert!(is_sub(hb, skip.unwrap().as_bytes(), 0, p));
            assert!(is_sub(hb, keep.unwrap().as_bytes(), 0, p + pat.len()));
        }
    }
    must_reach!(want == Some(1) && pat.len() == N, "last match at 1 with a full-length needle");
}

fn str_split_once_str<const H: usize, const N: usize>() {
    sym_str!(hay, H);
    sym_str!(pat, N);
    kani::assume(!pat.is_empty());
    let hb = hay.as_bytes();
    match (kstr::split_once(hay, pat), naive_find(hb, pat.as_bytes())) {
        (None, None) => {}
        (Some((a, b)), Some(p)) => {
            assert!(is_sub(hb, a.as_bytes(), 0, p));
            assert!(is_sub(hb, b.as_bytes(), p + pat.len(), hb.len() - p - pat.len()));
        }
        _ => assert!(false),
    }
    match (kstr::rsplit_once(hay, pat), naive_rfind(hb, pat.as_bytes())) {
        (None, None) => {}
        (Some((a, b)), Some(p)) => {
            assert!(is_sub(hb, a.as_bytes(), 0, p));
            assert!(is_sub(hb, b.as_bytes(), p + pat.len(), hb.len() - p - pat.len()));
        }
        _ => assert!(false),
    }
    must_reach!(
        naive_find(hb, pat.as_bytes()) != naive_rfind(hb, pat.as_bytes()),
        "first and last occurrence differ"
    );
}

// ---------------------------------------------------------------- string functions, char pattern

fn str_char_fwd<const H: usize>() {
    sym_str!(hay, H);
    let c: char = kani::any();
    let mut buf = [0u8; 4];
    let cb = c.encode_utf8(&mut buf).as_bytes();
    let hb = hay.as_bytes();
    let wf = naive_find(hb, cb);
    assert!(kstr::find(hay, c) == wf);
    assert!(kstr::contains(hay, c) == wf.is_some());
    match (kstr::find_skip(hay, c), kstr::find_keep(hay, c), wf) {
        (None, None, None) => {}
        (Some(s), Some(k), Some(p)) => {
            assert!(is_sub(hb, s.as_bytes(), p + cb.len(), hb.len() - p - cb.len()));
            assert!(is_sub(hb, k.as_bytes(), p, hb.len() - p));
        }
        _ => assert!(false),
    }
    match (kstr::split_once(hay, c), wf) {
        (None, None) => {}
        (Some((a, b)), Some(p)) => {
            assert!(is_sub(hb, a.as_bytes(), 0, p));
            assert!(is_sub(hb, b.as_bytes(), p + cb.len(), hb.len() - p - cb.len()));
        }
        _ => assert!(false),
    }
    must_reach!(wf == Some(2) && cb.len() == 2, "2-byte char found at 2");
    must_reach!(wf.is_none() && hay.len() == H, "absent");
}

fn str_char_rev<const H: usize>() {
    sym_str!(hay, H);
    let c: char = kani::any();
    let mut buf = [0u8; 4];
    let cb = c.encode_utf8(&mut buf).as_bytes();
    let hb = hay.as_bytes();
    let wr = naive_rfind(hb, cb);
    assert!(kstr::rfind(hay, c) == wr);
    assert!(kstr::rcontains(hay, c) == wr.is_some());
    match (kstr::rfind_skip(hay, c), kstr::rfind_keep(hay, c), wr) {
        (None, None, None) => {}
        (Some(s), Some(k), Some(p)) => {
            assert!(is_sub(hb, s.as_bytes(), 0, p));
            assert!(is_sub(hb, k.as_bytes(), 0, p + cb.len()));
        }
        _ => assert!(false),
    }
    match (kstr::rsplit_once(hay, c), wr) {
        (None, None) => {}
        (Some((a, b)), Some(p)) => {
            assert!(is_sub(hb, a.as_bytes(), 0, p));
            assert!(is_sub(hb, b.as_bytes(), p + cb.len(), hb.len() - p - cb.len()));
        }
        _ => assert!(false),
    }
    must_reach!(wr == Some(2) && naive_find(hb, cb) == Some(0) && cb.len() == 2, "2-byte char occurs twice");
    must_reach!(wr.is_none() && hay.len() == H, "absent");
}

tiers! { bytes_find_slice: unwind(7, 10), bytes_find_slice::<5, 3>(), bytes_find_slice::<8, 4>(),
    calls("konst::slice::bytes_find", "konst::slice::bytes_contain"),
    bounds("hay<=5 bytes, needle 1..=3 bytes, all byte values", "hay<=8, needle 1..=4") }
tiers! { bytes_rfind_slice: unwind(7, 10), bytes_rfind_slice::<5, 3>(), bytes_rfind_slice::<8, 4>(),
    calls("konst::slice::bytes_rfind", "konst::slice::bytes_rcontain"),
    bounds("hay<=5 bytes, needle 1..=3 bytes, all byte values", "hay<=8, needle 1..=4") }
tiers! { bytes_find_skip_keep: unwind(7, 10), bytes_find_skip_keep::<5, 3>(), bytes_find_skip_keep::<8, 4>(),
    calls("konst::slice::bytes_find_skip", "konst::slice::bytes_find_keep"),
    bounds("hay<=5 bytes, needle 1..=3 bytes", "hay<=8, needle 1..=4") }
tiers! { bytes_rfind_skip_keep: unwind(7, 10), bytes_rfind_skip_keep::<5, 3>(), bytes_rfind_skip_keep::<8, 4>(),
    calls("konst::slice::bytes_rfind_skip", "konst::slice::bytes_rfind_keep"),
    bounds("hay<=5 bytes, needle 1..=3 bytes", "hay<=8, needle 1..=4") }
tiers! { bytes_find_array0: unwind(7, 10), bytes_find_array::<5, 0>(), bytes_find_array::<8, 0>(),
    calls("konst::slice::bytes_find::<[u8;0]>"), bounds("hay<=5", "hay<=8") }
tiers! { bytes_find_array1: unwind(7, 10), bytes_find_array::<5, 1>(), bytes_find_array::<8, 1>(),
    calls("konst::slice::bytes_{find,rfind,contain,rcontain,find_skip}::<[u8;1]>"), bounds("hay<=5", "hay<=8") }
tiers! { bytes_find_array2: unwind(7, 10), bytes_find_array::<5, 2>(), bytes_find_array::<8, 2>(),
    calls("konst::slice::bytes_{find,rfind,contain,rcontain,find_skip}::<[u8;2]>"), bounds("hay<=5", "hay<=8") }
tiers! { bytes_find_array3: unwind(7, 10), bytes_find_array::<5, 3>(), bytes_find_array::<8, 3>(),
    calls("konst::slice::bytes_{find,rfind,contain,rcontain,find_skip}::<[u8;3]>"), bounds("hay<=5", "hay<=8") }
tiers! { bytes_find_str_char: unwind(7, 9), bytes_find_str_char::<5, 3>(), bytes_find_str_char::<7, 4>(),
    calls("konst::slice::bytes_find::<str>", "konst::slice::bytes_find::<char>", "konst::slice::bytes_rfind::<str|char>"),
    bounds("hay<=5 bytes, str needle 1..=3 bytes, every char", "hay<=7, str needle 1..=4") }
tiers! { empty_pattern_forward: unwind(7, 10), empty_pattern_forward::<5>(), empty_pattern_forward::<8>(),
    calls("konst::slice::bytes_find", "konst::slice::bytes_find_skip", "konst::slice::bytes_find_keep",
          "konst::string::find", "konst::string::find_skip", "konst::string::find_keep", "konst::string::split_once"),
    bounds("hay<=5", "hay<=8") }
tiers! { str_find_str: unwind(7, 10), str_find_str::<5, 3>(), str_find_str::<8, 4>(),
    calls("konst::string::find", "konst::string::contains"),
    bounds("hay<=5 bytes valid UTF-8, needle 1..=3 bytes valid UTF-8", "hay<=8, needle 1..=4") }
tiers! { str_rfind_str: unwind(7, 10), str_rfind_str::<5, 3>(), str_rfind_str::<8, 4>(),
    calls("konst::string::rfind", "konst::string::rcontains"),
    bounds("hay<=5 bytes valid UTF-8, needle 1..=3 bytes valid UTF-8", "hay<=8, needle 1..=4") }
tiers! { str_find_skip_keep_str: unwind(7, 10), str_find_skip_keep_str::<5, 3>(), str_find_skip_keep_str::<8, 4>(),
    calls("konst::string::find_skip", "konst::string::find_keep"),
    bounds("hay<=5, needle 1..=3", "hay<=8, needle 1..=4") }
tiers! { str_rfind_skip_keep_str: unwind(7, 10), str_rfind_skip_keep_str::<5, 3>(), str_rfind_skip_keep_str::<8, 4>(),
    calls("konst::string::rfind_skip", "konst::string::rfind_keep"),
    bounds("hay<=5, needle 1..=3", "hay<=8, needle 1..=4") }
tiers! { str_split_once_str: unwind(7, 10), str_split_once_str::<5, 3>(), str_split_once_str::<8, 4>(),
    calls("konst::string::split_once", "konst::string::rsplit_once"),
    bounds("hay<=5, needle 1..=3", "hay<=8, needle 1..=4") }
tiers! { str_char_fwd: unwind(7, 10), str_char_fwd::<5>(), str_char_fwd::<8>(),
    calls("konst::string::{find,contains,find_skip,find_keep,split_once}::<char>"),
    bounds("hay<=5 bytes valid UTF-8, every char", "hay<=8") }
tiers! { str_char_rev: unwind(7, 10), str_char_rev::<5>(), str_char_rev::<8>(),
    calls("konst::string::{rfind,rcontains,rfind_skip,rfind_keep,rsplit_once}::<char>"),
    bounds("hay<=5 bytes valid UTF-8, every char", "hay<=8") }
