//! C06 — string split iterators yield exactly the pieces std's split family yields.
//!
//! Reference: a cursor-based naive splitter over `util::naive_find` / `naive_rfind` (std's
//! `StrSearcher` is out of reach for CBMC, DESIGN 2.4), the terminator rule, konst's documented
//! mirrored rule for `rsplit_terminator`, and the empty-delimiter rule (`""`, every char, `""`).
//! Checked at every step: the item (address and length) and `remainder()` = the not-yet-split part.
use crate::util::*;
use konst::string as kstr;

#[inline]
fn same(a: &str, b: &[u8]) -> bool {
    a.len() == b.len() && (a.is_empty() || a.as_ptr() == b.as_ptr())
}

/// forward `split` / `split_terminator` (TERM) and their `rev()`-less forms, non-empty delimiter
fn fwd<const CAP: usize, const N: usize, const CH: bool, const TERM: bool>() {
    sym_str!(s, CAP);
    sym_str!(ds, N);
    let c: char = kani::any();
    let mut cbuf = [0u8; 4];
    let d: &[u8] = if CH { c.encode_utf8(&mut cbuf).as_bytes() } else { ds.as_bytes() };
    kani::assume(!d.is_empty());
    let w = s.as_bytes();
    let mut at = 0usize;
    let mut done = false;
    let mut pieces = 0usize;
    macro_rules! step {
        ($it:ident, $next:expr) => {
            match $next {
                Some((piece, rest)) => {
                    assert!(!done);
                    let tail = &w[at..];
                    match naive_find(tail, d) {
                        Some(pos) => {
                            assert!(same(piece, &tail[..pos]));
                            at += pos + d.len();
                            if TERM && at == w.len() {
                                done = true; // a trailing delimiter terminates: no empty last piece
                            }
                        }
                        None => {
                            assert!(same(piece, tail));
                            assert!(!(TERM && tail.is_empty()));
                            at = w.len();
                            done = true;
                        }
                    }
                    $it = rest;
                    assert!(same($it.remainder(), &w[at..]) || (done && $it.remainder().is_empty()));
                    pieces += 1;
                }
                None => {
                    assert!(done || (TERM && w.is_empty()));
                    done = true;
                }
            }
        };
    }
    let mut i = 0;
    if TERM {
        if CH {
            let mut it = kstr::split_terminator(s, c);
            while i < CAP + 2 { step!(it, it.copy().next()); i += 1; }
        } else {
            let mut it = kstr::split_terminator(s, ds);
            while i < CAP + 2 { step!(it, it.copy().next()); i += 1; }
        }
    } else if CH {
        let mut it = kstr::split(s, c);
        while i < CAP + 2 { step!(it, it.copy().next()); i += 1; }
    } else {
        let mut it = kstr::split(s, ds);
        while i < CAP + 2 { step!(it, it.copy().next()); i += 1; }
    }
    assert!(done);
    must_reach!(pieces >= 2, "two or more pieces");
    must_reach!(pieces == 1 && w.len() == CAP, "delimiter absent from a full-length string");
    must_reach!(w.len() >= d.len() && naive_rfind(w, d) == Some(w.len() - d.len()) && w.len() > d.len(), "trailing delimiter");
}

/// `rsplit` (also as `split(..).rev()`) and `rsplit_terminator`, non-empty delimiter
fn bwd<const CAP: usize, const N: usize, const CH: bool, const TERM: bool, const VIA_REV: bool>() {
    sym_str!(s, CAP);
    sym_str!(ds, N);
    let c: char = kani::any();
    let mut cbuf = [0u8; 4];
    let d: &[u8] = if CH { c.encode_utf8(&mut cbuf).as_bytes() } else { ds.as_bytes() };
    kani::assume(!d.is_empty());
    let w = s.as_bytes();
    let mut end = w.len();
    let mut done = false;
    let mut pieces = 0usize;
    macro_rules! step {
        ($it:ident, $next:expr) => {
            match $next {
                Some((piece, rest)) => {
                    assert!(!done);
                    let head = &w[..end];
                    match naive_rfind(head, d) {
                        Some(pos) => {
                            assert!(same(piece, &head[pos + d.len()..]));
                            end = pos;
                            if TERM && end == 0 {
                                done = true; // mirrored rule: no empty piece before a leading delimiter
                            }
                        }
                        None => {
                            assert!(same(piece, head));
                            assert!(!(TERM && head.is_empty()));
                            end = 0;
                            done = true;
                        }
                    }
                    $it = rest;
                    assert!(same($it.remainder(), &w[..end]) || (done && $it.remainder().is_empty()));
                    pieces += 1;
                }
                None => {
                    assert!(done || (TERM && w.is_empty()));
                    done = true;
                }
            }
        };
    }
    let mut i = 0;
    if TERM {
        if CH {
            let mut it = kstr::rsplit_terminator(s, c);
            while i < CAP + 2 { step!(it, it.copy().next()); i += 1; }
        } else {
            let mut it = kstr::rsplit_terminator(s, ds);
            while i < CAP + 2 { step!(it, it.copy().next()); i += 1; }
        }
    } else if VIA_REV {
        if CH {
            let mut it = kstr::split(s, c).rev();
            while i < CAP + 2 { step!(it, it.copy().next()); i += 1; }
        } else {
            let mut it = kstr::split(s, ds).rev();
            while i < CAP + 2 { step!(it, it.copy().next()); i += 1; }
        }
    } else if CH {
        let mut it = kstr::rsplit(s, c);
        while i < CAP + 2 { step!(it, it.copy().next()); i += 1; }
    } else {
        let mut it = kstr::rsplit(s, ds);
        while i < CAP + 2 { step!(it, it.copy().next()); i += 1; }
    }
    assert!(done);
    must_reach!(pieces >= 2, "two or more pieces");
    must_reach!(w.len() > d.len() && naive_find(w, d) == Some(0), "leading delimiter");
}

// ------------------------------------------------------------------ one step from an arbitrary state
//
// Every state of a split iterator is "the not-yet-split part + (Normal | Finished)"; the not-yet-split
// part of any reachable state is a sub-string of the input on char boundaries, and
// `split(&s[a..b], d)` IS that state in `Normal` mode. One step from every such state (+ one more
// call to observe `Finished`) determines the whole sequence by induction on the number of steps.

/// forward step of split / split_terminator
fn fwd_step<const CAP: usize, const N: usize, const CH: bool, const TERM: bool>() {
    sym_str!(s, CAP);
    let a: usize = kani::any();
    let b: usize = kani::any();
    kani::assume(a <= b && b <= s.len() && s.is_char_boundary(a) && s.is_char_boundary(b));
    let sub = &s[a..b];
    sym_str!(ds, N);
    let c: char = kani::any();
    let mut cbuf = [0u8; 4];
    let d: &[u8] = if CH { c.encode_utf8(&mut cbuf).as_bytes() } else { ds.as_bytes() };
    kani::assume(!d.is_empty());
    let w = sub.as_bytes();
    let found = naive_find(w, d);
    macro_rules! check {
        ($it:expr) => {{
            let it = $it;
            match it.copy().next() {
                Some((piece, rest)) => match found {
                    Some(pos) => {
                        assert!(same(piece, &w[..pos]));
                        assert!(same(rest.remainder(), &w[pos + d.len()..]));
                        // a further step continues from exactly that remainder (Normal state kept)
                        if !TERM || pos + d.len() < w.len() {
                            assert!(rest.copy().next().is_some());
                        } else {
                            assert!(rest.copy().next().is_none());
                        }
                    }
                    None => {
                        assert!(!(TERM && w.is_empty()));
                        assert!(same(piece, w) && rest.remainder().is_empty());
                        assert!(rest.copy().next().is_none()); // finished, and stays finished
                    }
                },
                None => assert!(TERM && w.is_empty()),
            }
        }};
    }
    if TERM {
        if CH { check!(kstr::split_terminator(sub, c)) } else { check!(kstr::split_terminator(sub, ds)) }
    } else if CH {
        check!(kstr::split(sub, c))
    } else {
        check!(kstr::split(sub, ds))
    }
    must_reach!(found == Some(1) && a > 0 && b < s.len(), "delimiter at 1 of an interior window");
    must_reach!(found.is_none() && w.len() >= 2, "delimiter absent");
    must_reach!(found.is_some() && found.unwrap() + d.len() == w.len() && w.len() > d.len(), "trailing delimiter");
}

/// backward step of rsplit / split(..).rev() / rsplit_terminator
fn bwd_step<const CAP: usize, const N: usize, const CH: bool, const TERM: bool, const VIA_REV: bool>() {
    sym_str!(s, CAP);
    let a: usize = kani::any();
    let b: usize = kani::any();
    kani::assume(a <= b && b <= s.len() && s.is_char_boundary(a) && s.is_char_boundary(b));
    let sub = &s[a..b];
    sym_str!(ds, N);
    let c: char = kani::any();
    let mut cbuf = [0u8; 4];
    let d: &[u8] = if CH { c.encode_utf8(&mut cbuf).as_bytes() } else { ds.as_bytes() };
    kani::assume(!d.is_empty());
    let w = sub.as_bytes();
    let found = naive_rfind(w, d);
    macro_rules! check {
        ($it:expr) => {{
            let it = $it;
            match it.copy().next() {
                Some((piece, rest)) => match found {
                    Some(pos) => {
                        assert!(same(piece, &w[pos + d.len()..]));
                        assert!(same(rest.remainder(), &w[..pos]));
                        if !TERM || pos > 0 {
                            assert!(rest.copy().next().is_some());
                        } else {
                            assert!(rest.copy().next().is_none());
                        }
                    }
                    None => {
                        assert!(!(TERM && w.is_empty()));
                        assert!(same(piece, w) && rest.remainder().is_empty());
                        assert!(rest.copy().next().is_none());
                    }
                },
                None => assert!(TERM && w.is_empty()),
            }
        }};
    }
    if TERM {
        if CH { check!(kstr::rsplit_terminator(sub, c)) } else { check!(kstr::rsplit_terminator(sub, ds)) }
    } else if VIA_REV {
        if CH { check!(kstr::split(sub, c).rev()) } else { check!(kstr::split(sub, ds).rev()) }
    } else if CH {
        check!(kstr::rsplit(sub, c))
    } else {
        check!(kstr::rsplit(sub, ds))
    }
    must_reach!(found == Some(1) && a > 0 && b < s.len(), "last delimiter at 1 of an interior window");
    must_reach!(found.is_none() && w.len() >= 2, "delimiter absent");
    must_reach!(found == Some(0) && w.len() > d.len(), "leading delimiter");
}

/// `rsplit(..).rev()` yields the pieces of `split`
fn rsplit_rev_is_split<const CAP: usize, const N: usize>() {
    sym_str!(s, CAP);
    sym_str!(ds, N);
    kani::assume(!ds.is_empty());
    let mut a = kstr::rsplit(s, ds).rev();
    let mut b = kstr::split(s, ds);
    let mut i = 0;
    let mut pieces = 0usize;
    while i < CAP + 2 {
        match (a.copy().next(), b.copy().next()) {
            (None, None) => {}
            (Some((x, ra)), Some((y, rb))) => {
                assert!(x.len() == y.len() && (x.is_empty() || x.as_ptr() == y.as_ptr()));
                a = ra;
                b = rb;
                pieces += 1;
            }
            _ => assert!(false),
        }
        i += 1;
    }
    must_reach!(pieces >= 2, "two or more pieces");
}

/// empty delimiter: "", every char, "" (terminator forms: without the last "")
fn empty_delim<const CAP: usize, const WHICH: u8>() {
    sym_str!(s, CAP);
    let w = s.as_bytes();
    let mut st = s.char_indices();
    let mut pieces = 0usize;
    let mut phase = 0u8; // 0: leading "", 1: chars, 2: trailing "" done
    macro_rules! step {
        ($it:ident, $back:literal, $term:literal) => {
            match $it.copy().next() {
                Some((piece, rest)) => {
                    if phase == 0 {
                        assert!(piece.is_empty());
                        phase = 1;
                    } else {
                        assert!(phase == 1);
                        let nx = if $back { st.next_back() } else { st.next() };
                        match nx {
                            Some((off, ch)) => assert!(same(piece, &w[off..off + ch.len_utf8()])),
                            None => {
                                assert!(!$term && piece.is_empty());
                                phase = 2;
                            }
                        }
                    }
                    $it = rest;
                    pieces += 1;
                }
                None => {
                    assert!(phase == 2 || ($term && phase == 1 && st.as_str().is_empty()));
                    phase = 2;
                }
            }
        };
    }
    let mut i = 0;
    match WHICH {
        0 => { let mut it = kstr::split(s, ""); while i < CAP + 3 { step!(it, false, false); i += 1; } }
        1 => { let mut it = kstr::rsplit(s, ""); while i < CAP + 3 { step!(it, true, false); i += 1; } }
        2 => { let mut it = kstr::split_terminator(s, ""); while i < CAP + 3 { step!(it, false, true); i += 1; } }
        _ => { let mut it = kstr::rsplit_terminator(s, ""); while i < CAP + 3 { step!(it, true, true); i += 1; } }
    }
    assert!(phase == 2);
    must_reach!(pieces >= 4 && w.len() == CAP, "full-length string split into characters");
    must_reach!(w.is_empty(), "empty string");
}

tiers! { split_step_str: unwind(8, 9), fwd_step::<4, 2, false, false>(), fwd_step::<6, 3, false, false>(),
    calls("konst::string::split::<&str>", "next", "remainder"), bounds("every window of a string <=4 bytes, one step + the following call, str delimiter 1..=2 bytes", "string <=6, delimiter 1..=3") }
tiers! { split_step_char: unwind(8, 9), fwd_step::<4, 1, true, false>(), fwd_step::<6, 1, true, false>(),
    calls("konst::string::split::<char>", "next", "remainder"), bounds("every window of a string <=4 bytes, one step + the following call, every char", "string <=6") }
tiers! { split_terminator_step_str: unwind(8, 9), fwd_step::<4, 2, false, true>(), fwd_step::<6, 3, false, true>(),
    calls("konst::string::split_terminator::<&str>", "next", "remainder"), bounds("every window of a string <=4 bytes, one step + the following call, str delimiter 1..=2 bytes", "string <=6, delimiter 1..=3") }
tiers! { split_terminator_step_char: unwind(8, 9), fwd_step::<4, 1, true, true>(), fwd_step::<6, 1, true, true>(),
    calls("konst::string::split_terminator::<char>", "next", "remainder"), bounds("every window of a string <=4 bytes, one step + the following call, every char", "string <=6") }
tiers! { rsplit_step_str: unwind(8, 9), bwd_step::<4, 2, false, false, false>(), bwd_step::<6, 3, false, false, false>(),
    calls("konst::string::rsplit::<&str>", "next", "remainder"), bounds("every window of a string <=4 bytes, one step + the following call, str delimiter 1..=2 bytes", "string <=6, delimiter 1..=3") }
tiers! { rsplit_step_char: unwind(8, 9), bwd_step::<4, 1, true, false, false>(), bwd_step::<6, 1, true, false, false>(),
    calls("konst::string::rsplit::<char>", "next", "remainder"), bounds("every window of a string <=4 bytes, one step + the following call, every char", "string <=6") }
tiers! { split_rev_step_str: unwind(8, 9), bwd_step::<4, 2, false, false, true>(), bwd_step::<6, 3, false, false, true>(),
    calls("konst::string::split(..).rev()::<&str>", "next", "remainder"), bounds("every window of a string <=4 bytes, one step + the following call, str delimiter 1..=2 bytes", "string <=6, delimiter 1..=3") }
tiers! { split_rev_step_char: unwind(8, 9), bwd_step::<4, 1, true, false, true>(), bwd_step::<6, 1, true, false, true>(),
    calls("konst::string::split(..).rev()::<char>", "next", "remainder"), bounds("every window of a string <=4 bytes, one step + the following call, every char", "string <=6") }
tiers! { rsplit_terminator_step_str: unwind(8, 9), bwd_step::<4, 2, false, true, false>(), bwd_step::<6, 3, false, true, false>(),
    calls("konst::string::rsplit_terminator::<&str>", "next", "remainder"), bounds("every window of a string <=4 bytes, one step + the following call, str delimiter 1..=2 bytes", "string <=6, delimiter 1..=3") }
tiers! { rsplit_terminator_step_char: unwind(8, 9), bwd_step::<4, 1, true, true, false>(), bwd_step::<6, 1, true, true, false>(),
    calls("konst::string::rsplit_terminator::<char>", "next", "remainder"), bounds("every window of a string <=4 bytes, one step + the following call, every char", "string <=6") }
tiers! { split_protocol: unwind(8, 9), fwd::<3, 1, false, false>(), fwd::<4, 2, false, false>(),
    calls("konst::string::split::<&str>"), bounds("to exhaustion: string <=3 bytes, delimiter 1 byte", "string <=4, delimiter 1..=2") }
tiers! { split_terminator_protocol: unwind(8, 9), fwd::<3, 1, false, true>(), fwd::<4, 2, false, true>(),
    calls("konst::string::split_terminator::<&str>"), bounds("to exhaustion: string <=3 bytes, delimiter 1 byte", "string <=4, delimiter 1..=2") }
tiers! { rsplit_protocol: unwind(8, 9), bwd::<3, 1, false, false, false>(), bwd::<4, 2, false, false, false>(),
    calls("konst::string::rsplit::<&str>"), bounds("to exhaustion: string <=3 bytes, delimiter 1 byte", "string <=4, delimiter 1..=2") }
tiers! { rsplit_terminator_protocol: unwind(8, 9), bwd::<3, 1, false, true, false>(), bwd::<4, 2, false, true, false>(),
    calls("konst::string::rsplit_terminator::<&str>"), bounds("to exhaustion: string <=3 bytes, delimiter 1 byte", "string <=4, delimiter 1..=2") }
tiers! { rsplit_rev_is_split: unwind(8, 9), rsplit_rev_is_split::<3, 1>(), rsplit_rev_is_split::<4, 2>(),
    calls("konst::string::RSplit::rev"), bounds("to exhaustion: string <=3 bytes, delimiter 1 byte", "string <=4, delimiter 1..=2") }
tiers! { empty_delim_split: unwind(9, 10), empty_delim::<4, 0>(), empty_delim::<6, 0>(),
    calls("konst::string::split(.., \"\")"), bounds("string <=4 bytes, to exhaustion", "string <=6") }
tiers! { empty_delim_rsplit: unwind(9, 10), empty_delim::<4, 1>(), empty_delim::<6, 1>(),
    calls("konst::string::rsplit(.., \"\")"), bounds("string <=4 bytes, to exhaustion", "string <=6") }
tiers! { empty_delim_split_terminator: unwind(9, 10), empty_delim::<4, 2>(), empty_delim::<6, 2>(),
    calls("konst::string::split_terminator(.., \"\")"), bounds("string <=4 bytes, to exhaustion", "string <=6") }
tiers! { empty_delim_rsplit_terminator: unwind(9, 10), empty_delim::<4, 3>(), empty_delim::<6, 3>(),
    calls("konst::string::rsplit_terminator(.., \"\")"), bounds("string <=4 bytes, to exhaustion", "string <=6") }
