//! C05 — prefix/suffix tests, stripping and trimming agree with std.
//!
//! Oracles: `<[u8]>::starts_with/ends_with/strip_prefix/strip_suffix`, `trim_ascii*` (std, cheap);
//! pattern trimming: `util::naive_trim_start_count` / `naive_trim_end_keep` (maximal run of whole
//! repetitions; std's `trim_*_matches` is a Two-Way searcher and is out of reach for CBMC).
use crate::util::*;
use konst::{slice as ks, string as kstr};

#[inline]
fn same(a: &[u8], b: &[u8]) -> bool {
    a.len() == b.len() && (a.is_empty() || a.as_ptr() == b.as_ptr())
}
#[inline]
fn same_opt(a: Option<&[u8]>, b: Option<&[u8]>) -> bool {
    match (a, b) {
        (None, None) => true,
        (Some(a), Some(b)) => same(a, b),
        _ => false,
    }
}

/// Trimming both ends: the maximal front run and the maximal back run are removed. When the two
/// runs overlap (hay "aaa", needle "aa") the property does not fix which end wins, so either
/// order (front run first, or back run first) is accepted.
fn both_ends_ok(hay: &[u8], pat: &[u8], got: &[u8]) -> bool {
    let front = naive_trim_start_count(hay, pat);
    let keep_after_front = naive_trim_end_keep(&hay[front..], pat);
    let keep = naive_trim_end_keep(hay, pat);
    let front_after_back = naive_trim_start_count(&hay[..keep], pat);
    is_sub(hay, got, front, keep_after_front) || is_sub(hay, got, front_after_back, keep - front_after_back)
}

fn bytes_prefix_suffix<const H: usize, const N: usize>() {
    sym_bytes!(hay, H);
    sym_bytes!(pat, N);
    assert!(ks::bytes_start_with(hay, pat) == hay.starts_with(pat));
    assert!(ks::bytes_end_with(hay, pat) == hay.ends_with(pat));
    assert!(same_opt(ks::bytes_strip_prefix(hay, pat), hay.strip_prefix(pat)));
    assert!(same_opt(ks::bytes_strip_suffix(hay, pat), hay.strip_suffix(pat)));
    must_reach!(hay.starts_with(pat) && pat.len() == N - 1 && hay.len() > pat.len(), "proper prefix");
    must_reach!(hay.ends_with(pat) && !hay.starts_with(pat) && pat.len() == 2, "suffix only");
    must_reach!(pat.len() > hay.len(), "pattern longer than the input");
    must_reach!(pat.is_empty(), "empty pattern");
}

fn bytes_prefix_suffix_array<const H: usize, const N: usize>() {
    sym_bytes!(hay, H);
    let pat: [u8; N] = kani::any();
    assert!(ks::bytes_start_with(hay, &pat) == hay.starts_with(&pat));
    assert!(ks::bytes_end_with(hay, &pat) == hay.ends_with(&pat));
    assert!(same_opt(ks::bytes_strip_prefix(hay, &pat), hay.strip_prefix(&pat[..])));
    assert!(same_opt(ks::bytes_strip_suffix(hay, &pat), hay.strip_suffix(&pat[..])));
    let c: char = kani::any();
    let mut buf = [0u8; 4];
    let cb = c.encode_utf8(&mut buf).as_bytes();
    assert!(ks::bytes_start_with(hay, &c) == hay.starts_with(cb));
    assert!(same_opt(ks::bytes_strip_suffix(hay, &c), hay.strip_suffix(cb)));
    must_reach!(hay.starts_with(&pat) && hay.len() > N, "array prefix");
    must_reach!(hay.ends_with(cb) && cb.len() == 3, "3-byte char suffix");
}

fn str_prefix_suffix<const H: usize, const N: usize>() {
    sym_str!(hay, H);
    sym_str!(pat, N);
    let hb = hay.as_bytes();
    let pb = pat.as_bytes();
    assert!(kstr::starts_with(hay, pat) == hb.starts_with(pb));
    assert!(kstr::ends_with(hay, pat) == hb.ends_with(pb));
    assert!(same_opt(kstr::strip_prefix(hay, pat).map(str::as_bytes), hb.strip_prefix(pb)));
    assert!(same_opt(kstr::strip_suffix(hay, pat).map(str::as_bytes), hb.strip_suffix(pb)));
    let c: char = kani::any();
    let mut buf = [0u8; 4];
    let cb = c.encode_utf8(&mut buf).as_bytes();
    assert!(kstr::starts_with(hay, c) == hb.starts_with(cb));
    assert!(kstr::ends_with(hay, c) == hb.ends_with(cb));
    assert!(same_opt(kstr::strip_prefix(hay, c).map(str::as_bytes), hb.strip_prefix(cb)));
    assert!(same_opt(kstr::strip_suffix(hay, c).map(str::as_bytes), hb.strip_suffix(cb)));
    must_reach!(hb.starts_with(pb) && pb.len() == 2 && hb.len() > 2, "proper str prefix");
    must_reach!(hb.ends_with(cb) && cb.len() == 2, "2-byte char suffix");
    must_reach!(pb.len() > hb.len(), "pattern longer than the input");
}

fn bytes_trim_ws<const H: usize>() {
    sym_bytes!(hay, H);
    assert!(same(ks::bytes_trim(hay), hay.trim_ascii()));
    assert!(same(ks::bytes_trim_start(hay), hay.trim_ascii_start()));
    assert!(same(ks::bytes_trim_end(hay), hay.trim_ascii_end()));
    must_reach!(hay.len() == H && hay.trim_ascii().len() == 1 && hay[0] != hay[H - 1], "both ends trimmed, different whitespace");
    must_reach!(hay.len() == H && hay.trim_ascii().len() == H, "nothing trimmed");
    must_reach!(hay.len() == H && hay.trim_ascii().is_empty(), "all whitespace");
}

fn str_trim_ws<const H: usize>() {
    sym_str!(hay, H);
    let hb = hay.as_bytes();
    assert!(same(kstr::trim(hay).as_bytes(), hb.trim_ascii()));
    assert!(same(kstr::trim_start(hay).as_bytes(), hb.trim_ascii_start()));
    assert!(same(kstr::trim_end(hay).as_bytes(), hb.trim_ascii_end()));
    must_reach!(hb.len() == H && hb.trim_ascii().len() == 2 && hb[0] != hb[H - 1], "both ends trimmed around a 2-byte rest");
}

fn bytes_trim_start_end_matches<const H: usize, const N: usize>() {
    sym_bytes!(hay, H);
    sym_bytes!(pat, N);
    let front = naive_trim_start_count(hay, pat);
    let keep = naive_trim_end_keep(hay, pat);
    assert!(is_sub(hay, ks::bytes_trim_start_matches(hay, pat), front, hay.len() - front));
    assert!(is_sub(hay, ks::bytes_trim_end_matches(hay, pat), 0, keep));
    must_reach!(front == 2 * pat.len() && pat.len() == 2 && front < hay.len(), "two repetitions of a 2-byte needle removed");
    must_reach!(pat.len() == N && front == 0 && keep + N == hay.len(), "full-length needle removed from the end only");
    must_reach!(pat.is_empty() && hay.len() == H, "empty needle");
    must_reach!(pat.len() > hay.len(), "needle longer than the input");
}

fn bytes_trim_both_matches<const H: usize, const N: usize>() {
    sym_bytes!(hay, H);
    sym_bytes!(pat, N);
    assert!(both_ends_ok(hay, pat, ks::bytes_trim_matches(hay, pat)));
    must_reach!(pat.len() == 2 && naive_trim_start_count(hay, pat) == 2 && naive_trim_end_keep(hay, pat) == 3 && hay.len() == 5,
        "2-byte needle removed from both ends");
    must_reach!(pat.len() == 2 && naive_trim_start_count(hay, pat) > naive_trim_end_keep(hay, pat), "front and back runs overlap");
}

fn str_trim_start_end_matches<const H: usize, const N: usize>() {
    sym_str!(hay, H);
    sym_str!(pat, N);
    let hb = hay.as_bytes();
    let pb = pat.as_bytes();
    let front = naive_trim_start_count(hb, pb);
    let keep = naive_trim_end_keep(hb, pb);
    assert!(is_sub(hb, kstr::trim_start_matches(hay, pat).as_bytes(), front, hb.len() - front));
    assert!(is_sub(hb, kstr::trim_end_matches(hay, pat).as_bytes(), 0, keep));
    must_reach!(front == 2 && pb.len() == 2 && keep + 2 == hb.len() && hb.len() == H, "2-byte needle removed from both ends");
    must_reach!(pb.is_empty(), "empty needle");
}

fn str_trim_both_matches<const H: usize, const N: usize>() {
    sym_str!(hay, H);
    sym_str!(pat, N);
    let hb = hay.as_bytes();
    let pb = pat.as_bytes();
    assert!(both_ends_ok(hb, pb, kstr::trim_matches(hay, pat).as_bytes()));
    must_reach!(pb.len() == 2 && naive_trim_start_count(hb, pb) == 2 && naive_trim_end_keep(hb, pb) + 2 == hb.len() && hb.len() == H,
        "2-byte needle removed from both ends");
}

fn str_trim_matches_char<const H: usize>() {
    sym_str!(hay, H);
    let c: char = kani::any();
    let mut buf = [0u8; 4];
    let pb = c.encode_utf8(&mut buf).as_bytes();
    let hb = hay.as_bytes();
    let front = naive_trim_start_count(hb, pb);
    let keep = naive_trim_end_keep(hb, pb);
    assert!(is_sub(hb, kstr::trim_start_matches(hay, c).as_bytes(), front, hb.len() - front));
    assert!(is_sub(hb, kstr::trim_end_matches(hay, c).as_bytes(), 0, keep));
    // a char cannot overlap itself, so both-ends trimming is order independent
    let keep2 = if front <= keep { keep - front } else { 0 };
    assert!(is_sub(hb, kstr::trim_matches(hay, c).as_bytes(), front, keep2));
    must_reach!(front == 2 && pb.len() == 2 && keep + 2 == hb.len() && hb.len() == H, "2-byte char removed from both ends");
    must_reach!(front == 3 && pb.len() == 1, "three repetitions of an ASCII char");
}

fn bytes_trim_matches_char<const H: usize>() {
    sym_bytes!(hb, H);
    let c: char = kani::any();
    let mut buf = [0u8; 4];
    let pb = c.encode_utf8(&mut buf).as_bytes();
    let front = naive_trim_start_count(hb, pb);
    let keep = naive_trim_end_keep(hb, pb);
    assert!(is_sub(hb, ks::bytes_trim_start_matches(hb, &c), front, hb.len() - front));
    assert!(is_sub(hb, ks::bytes_trim_end_matches(hb, &c), 0, keep));
    let a2: [u8; 2] = kani::any();
    assert!(both_ends_ok(hb, &a2, ks::bytes_trim_matches(hb, &a2)));
    must_reach!(front == 2 && pb.len() == 2 && keep + 2 == hb.len() && hb.len() == H, "2-byte char removed from both ends");
}

tiers! { bytes_prefix_suffix: unwind(7, 10), bytes_prefix_suffix::<5, 3>(), bytes_prefix_suffix::<8, 4>(),
    calls("konst::slice::bytes_start_with", "konst::slice::bytes_end_with", "konst::slice::bytes_strip_prefix", "konst::slice::bytes_strip_suffix"),
    bounds("input<=5 bytes, pattern 0..=3 bytes, all byte values", "input<=8, pattern 0..=4") }
tiers! { bytes_prefix_suffix_array2: unwind(7, 10), bytes_prefix_suffix_array::<5, 2>(), bytes_prefix_suffix_array::<8, 2>(),
    calls("konst::slice::bytes_{start_with,end_with,strip_prefix,strip_suffix}::<[u8;2]|char>"),
    bounds("input<=5 bytes, every [u8;2], every char", "input<=8") }
tiers! { bytes_prefix_suffix_array0: unwind(7, 10), bytes_prefix_suffix_array::<5, 0>(), bytes_prefix_suffix_array::<8, 0>(),
    calls("konst::slice::bytes_{start_with,end_with,strip_prefix,strip_suffix}::<[u8;0]|char>"),
    bounds("input<=5 bytes, every char", "input<=8") }
tiers! { str_prefix_suffix: unwind(7, 10), str_prefix_suffix::<5, 3>(), str_prefix_suffix::<8, 4>(),
    calls("konst::string::starts_with", "konst::string::ends_with", "konst::string::strip_prefix", "konst::string::strip_suffix"),
    bounds("input<=5 bytes valid UTF-8, str pattern 0..=3 bytes, every char", "input<=8, pattern 0..=4") }
tiers! { bytes_trim_ws: unwind(8, 11), bytes_trim_ws::<6>(), bytes_trim_ws::<9>(),
    calls("konst::slice::bytes_trim", "konst::slice::bytes_trim_start", "konst::slice::bytes_trim_end"),
    bounds("input<=6 bytes, all 256 byte values at every position", "input<=9") }
tiers! { str_trim_ws: unwind(8, 11), str_trim_ws::<6>(), str_trim_ws::<9>(),
    calls("konst::string::trim", "konst::string::trim_start", "konst::string::trim_end"),
    bounds("input<=6 bytes valid UTF-8", "input<=9") }
tiers! { bytes_trim_start_end_matches: unwind(7, 11), bytes_trim_start_end_matches::<5, 3>(), bytes_trim_start_end_matches::<8, 4>(),
    calls("konst::slice::bytes_trim_start_matches", "konst::slice::bytes_trim_end_matches"),
    bounds("input<=5 bytes, needle 0..=3 bytes, all byte values", "input<=8, needle 0..=4") }
tiers! { bytes_trim_both_matches: unwind(7, 11), bytes_trim_both_matches::<5, 3>(), bytes_trim_both_matches::<8, 4>(),
    calls("konst::slice::bytes_trim_matches"),
    bounds("input<=5 bytes, needle 0..=3 bytes, all byte values", "input<=8, needle 0..=4") }
tiers! { str_trim_start_end_matches: unwind(7, 11), str_trim_start_end_matches::<5, 3>(), str_trim_start_end_matches::<8, 4>(),
    calls("konst::string::trim_start_matches", "konst::string::trim_end_matches"),
    bounds("input<=5 bytes valid UTF-8, str needle 0..=3 bytes", "input<=8, needle 0..=4") }
tiers! { str_trim_both_matches: unwind(7, 11), str_trim_both_matches::<5, 3>(), str_trim_both_matches::<8, 4>(),
    calls("konst::string::trim_matches"),
    bounds("input<=5 bytes valid UTF-8, str needle 0..=3 bytes", "input<=8, needle 0..=4") }
tiers! { str_trim_matches_char: unwind(7, 11), str_trim_matches_char::<5>(), str_trim_matches_char::<8>(),
    calls("konst::string::{trim_matches,trim_start_matches,trim_end_matches}::<char>"),
    bounds("input<=5 bytes valid UTF-8, every char", "input<=8") }
tiers! { bytes_trim_matches_char: unwind(7, 11), bytes_trim_matches_char::<5>(), bytes_trim_matches_char::<8>(),
    calls("konst::slice::bytes_trim_{start_,end_,}matches::<char|[u8;2]>"),
    bounds("input<=5 bytes, every char, every [u8;2]", "input<=8") }
