//! Shared pieces of the harnesses: symbolic-input constructors, reference oracles
//! (naive search / split / trim-matches), the UTF-8 predicate and the drop ledger.
//!
//! Everything in here is part of the trusted base and is listed in evidence.
#![allow(dead_code)]

/// `tiers!{ name: unwind(Q, T), quick_expr, thorough_expr }`
///
/// Expands to `mod name { #[kani::proof] fn q() {quick_expr} #[cfg(feature="thorough")] #[kani::proof] fn t() {thorough_expr} }`.
/// Extra attributes (`#[kani::should_panic]`, `#[kani::stub(..)]`) are applied to both.
/// The optional `calls(..)`/`bounds(..)` string lists are read by the driver (evidence), not by rustc.
#[macro_export]
macro_rules! tiers {
    (
        $(#[$attr:meta])*
        $name:ident : unwind($uq:literal, $ut:literal),
        $q:expr, $t:expr
        $(, calls($($calls:literal),* $(,)?))?
        $(, bounds($qb:literal, $tb:literal))?
        $(, panics_in($($pi:literal),* $(,)?))?
        $(, kf_witness($kf:literal))?
        $(, exhaustive)?
        $(, diverges)?
        $(,)?
    ) => {
        pub mod $name {
            #[allow(unused_imports)]
            use super::*;
            #[cfg(kani)]
            #[kani::proof]
            #[kani::unwind($uq)]
            $(#[$attr])*
            pub fn q() { $q }

            #[cfg(all(kani, feature = "thorough"))]
            #[kani::proof]
            #[kani::unwind($ut)]
            $(#[$attr])*
            pub fn t() { $t }
        }
    };
}

/// Like `tiers!` for harnesses whose quick and thorough bounds are the same (generated program
/// families: the tiers differ in WHICH programs are generated): only the `q` harness exists and it
/// runs in both tiers.
#[macro_export]
macro_rules! tiers1 {
    (
        $(#[$attr:meta])*
        $name:ident : unwind($uq:literal, $ut:literal),
        $q:expr, $t:expr
        $(, calls($($calls:literal),* $(,)?))?
        $(, bounds($qb:literal, $tb:literal))?
        $(, panics_in($($pi:literal),* $(,)?))?
        $(, kf_witness($kf:literal))?
        $(, exhaustive)?
        $(, diverges)?
        $(,)?
    ) => {
        pub mod $name {
            #[allow(unused_imports)]
            use super::*;
            #[cfg(kani)]
            #[kani::proof]
            #[kani::unwind($uq)]
            $(#[$attr])*
            pub fn q() { $q }
        }
    };
}

/// Witness that the end of an interesting path is reachable (vacuity guard).
#[macro_export]
macro_rules! must_reach {
    ($cond:expr, $msg:literal) => {
        #[cfg(kani)]
        kani::cover!($cond, $msg);
    };
    ($msg:literal) => {
        #[cfg(kani)]
        kani::cover!(true, $msg);
    };
}

/// Placed after a call that must panic: this cover has to be UNREACHABLE.
#[macro_export]
macro_rules! must_not_reach {
    ($msg:literal) => {
        #[cfg(kani)]
        kani::cover!(true, $msg);
    };
}

/// Binds `$name: &[u8]` to a symbolic byte slice of symbolic length `<= $cap`.
#[macro_export]
macro_rules! sym_bytes {
    ($name:ident, $cap:expr) => {
        let __arr: [u8; $cap] = kani::any();
        let __len: usize = kani::any();
        kani::assume(__len <= $cap);
        let $name: &[u8] = &__arr[..__len];
    };
}

/// Binds `$name: &str` to a symbolic valid-UTF-8 string of symbolic byte length `<= $cap`.
#[macro_export]
macro_rules! sym_str {
    ($name:ident, $cap:expr) => {
        let __arr: [u8; $cap] = kani::any();
        let __len: usize = kani::any();
        kani::assume(__len <= $cap);
        kani::assume($crate::util::valid_utf8(&__arr[..__len]));
        let $name: &str = unsafe { core::str::from_utf8_unchecked(&__arr[..__len]) };
    };
}

/// Binds `$name: &[$t]` to a symbolic slice of symbolic length `<= $cap`.
#[macro_export]
macro_rules! sym_slice {
    ($name:ident, $t:ty, $cap:expr) => {
        let __arr: [$t; $cap] = kani::any();
        let __len: usize = kani::any();
        kani::assume(__len <= $cap);
        let $name: &[$t] = &__arr[..__len];
    };
}

/// UTF-8 validity predicate (same language as `core::str::from_utf8`; tied to it by the
/// `lemmas::utf8_predicate_matches_std` harness and by native tests).
pub const fn valid_utf8(b: &[u8]) -> bool {
    let n = b.len();
    let mut i = 0;
    while i < n {
        let b0 = b[i];
        if b0 < 0x80 {
            i += 1;
        } else if b0 >= 0xC2 && b0 <= 0xDF {
            if i + 1 >= n || !cont(b[i + 1]) {
                return false;
            }
            i += 2;
        } else if b0 >= 0xE0 && b0 <= 0xEF {
            if i + 2 >= n {
                return false;
            }
            let b1 = b[i + 1];
            let ok1 = match b0 {
                0xE0 => b1 >= 0xA0 && b1 <= 0xBF,
                0xED => b1 >= 0x80 && b1 <= 0x9F,
                _ => cont(b1),
            };
            if !ok1 || !cont(b[i + 2]) {
                return false;
            }
            i += 3;
        } else if b0 >= 0xF0 && b0 <= 0xF4 {
            if i + 3 >= n {
                return false;
            }
            let b1 = b[i + 1];
            let ok1 = match b0 {
                0xF0 => b1 >= 0x90 && b1 <= 0xBF,
                0xF4 => b1 >= 0x80 && b1 <= 0x8F,
                _ => cont(b1),
            };
            if !ok1 || !cont(b[i + 2]) || !cont(b[i + 3]) {
                return false;
            }
            i += 4;
        } else {
            return false;
        }
    }
    true
}

#[inline(always)]
const fn cont(b: u8) -> bool {
    (b & 0xC0) == 0x80
}

/// `s.is_char_boundary(i)` written on bytes (for oracles that must not depend on konst).
#[inline]
pub fn is_boundary(b: &[u8], i: usize) -> bool {
    if i == 0 || i == b.len() {
        true
    } else if i > b.len() {
        false
    } else {
        (b[i] as i8) >= -0x40
    }
}

/// Does `needle` occur in `hay` at byte offset `at`?
#[inline]
pub fn occurs_at(hay: &[u8], needle: &[u8], at: usize) -> bool {
    if at > hay.len() || needle.len() > hay.len() - at {
        return false;
    }
    let mut j = 0;
    while j < needle.len() {
        if hay[at + j] != needle[j] {
            return false;
        }
        j += 1;
    }
    true
}

/// Reference: lowest offset at which `needle` occurs (empty needle -> 0).
pub fn naive_find(hay: &[u8], needle: &[u8]) -> Option<usize> {
    let mut at = 0;
    while at <= hay.len() {
        if occurs_at(hay, needle, at) {
            return Some(at);
        }
        at += 1;
    }
    None
}

/// Reference: highest offset at which `needle` occurs (empty needle -> len).
pub fn naive_rfind(hay: &[u8], needle: &[u8]) -> Option<usize> {
    let mut at = hay.len() + 1;
    while at > 0 {
        at -= 1;
        if occurs_at(hay, needle, at) {
            return Some(at);
        }
    }
    None
}

/// Reference for `trim_start_matches`: number of bytes removed from the front
/// (maximal run of whole repetitions of a non-empty needle; empty needle removes nothing).
pub fn naive_trim_start_count(hay: &[u8], needle: &[u8]) -> usize {
    if needle.is_empty() {
        return 0;
    }
    let mut at = 0;
    while occurs_at(hay, needle, at) {
        at += needle.len();
    }
    at
}

/// Reference for `trim_end_matches`: number of bytes kept (prefix length).
pub fn naive_trim_end_keep(hay: &[u8], needle: &[u8]) -> usize {
    if needle.is_empty() {
        return hay.len();
    }
    let mut end = hay.len();
    while end >= needle.len() && occurs_at(hay, needle, end - needle.len()) {
        end -= needle.len();
    }
    end
}

/// byte offset of `inner` inside `outer` (both are views of the same allocation).
#[inline]
pub fn off_in(outer: &[u8], inner: &[u8]) -> usize {
    (inner.as_ptr() as usize).wrapping_sub(outer.as_ptr() as usize)
}

/// `inner` is exactly `outer[start..start+len]` by address and length.
#[inline]
pub fn is_sub(outer: &[u8], inner: &[u8], start: usize, len: usize) -> bool {
    inner.len() == len && (len == 0 || off_in(outer, inner) == start)
}

/// strict: also pins the address of empty results (used where the code documents it).
#[inline]
pub fn is_sub_strict(outer: &[u8], inner: &[u8], start: usize, len: usize) -> bool {
    inner.len() == len && off_in(outer, inner) == start
}

/// C01: a non-empty result lies inside the argument.
#[inline]
pub fn inside<T>(outer: &[T], inner: &[T]) -> bool {
    if inner.is_empty() {
        return true;
    }
    let sz = core::mem::size_of::<T>();
    let o = outer.as_ptr() as usize;
    let i = inner.as_ptr() as usize;
    if sz == 0 {
        return inner.len() <= outer.len();
    }
    i >= o && (i - o) % sz == 0 && (i - o) / sz + inner.len() <= outer.len()
}

/// C01: returned string lies inside `outer`, starts/ends on boundaries of `outer`, is valid UTF-8.
#[inline]
pub fn str_inside(outer: &str, inner: &str) -> bool {
    if inner.is_empty() {
        return true;
    }
    let ob = outer.as_bytes();
    let ib = inner.as_bytes();
    if !inside(ob, ib) {
        return false;
    }
    let s = off_in(ob, ib);
    is_boundary(ob, s) && is_boundary(ob, s + ib.len())
}

#[cfg(test)]
mod tests {
    use super::*;

    // translator validation: the references agree with std on the repository's own kind of
    // inputs and on exhaustive small alphabets (native, not part of the verdict).
    #[test]
    fn naive_refs_match_std() {
        let alpha = [b'a', b'b', 0xC3, 0xA9];
        let mut hay = [0u8; 6];
        for hl in 0..=6usize {
            let total = 4usize.pow(hl as u32);
            for code in 0..total {
                let mut c = code;
                for k in 0..hl {
                    hay[k] = alpha[c % 4];
                    c /= 4;
                }
                let h = &hay[..hl];
                let Ok(hs) = core::str::from_utf8(h) else { continue };
                assert!(valid_utf8(h));
                for needle in ["a", "ab", "aab", "aa", "é", "b", "ba", "aba", "éa"] {
                    assert_eq!(naive_find(h, needle.as_bytes()), hs.find(needle));
                    assert_eq!(naive_rfind(h, needle.as_bytes()), hs.rfind(needle));
                    assert_eq!(
                        &hs[naive_trim_start_count(h, needle.as_bytes())..],
                        hs.trim_start_matches(needle)
                    );
                    assert_eq!(
                        &hs[..naive_trim_end_keep(h, needle.as_bytes())],
                        hs.trim_end_matches(needle)
                    );
                }
            }
        }
    }

    #[test]
    fn utf8_predicate_matches_std_native() {
        // all 1- and 2-byte strings, and a structured sweep of 3/4-byte ones
        for a in 0..=255u8 {
            assert_eq!(valid_utf8(&[a]), core::str::from_utf8(&[a]).is_ok());
            for b in 0..=255u8 {
                assert_eq!(valid_utf8(&[a, b]), core::str::from_utf8(&[a, b]).is_ok());
            }
        }
        for a in 0xE0..=0xF5u8 {
            for b in (0x70..=0xC1u8).step_by(1) {
                for c in [0x00, 0x7F, 0x80, 0xBF, 0xC0] {
                    let s = [a, b, c];
                    assert_eq!(valid_utf8(&s), core::str::from_utf8(&s).is_ok(), "{s:x?}");
                    for d in [0x7F, 0x80, 0xBF, 0xC0] {
                        let s = [a, b, c, d];
                        assert_eq!(valid_utf8(&s), core::str::from_utf8(&s).is_ok(), "{s:x?}");
                    }
                }
            }
        }
    }
}

/// Arbitrary reachable `Parser` state over a symbolic original string (C13/C14, DESIGN section C13):
/// window `[a,b)` of `s` on char boundaries, symbolic base offset (`<= 2^30`, so the `u32` offset
/// field cannot wrap), one-shot split flag (only together with an empty window — all four assignment
/// sites set it that way). Everything is built through the
/// public API: `with_start_offset(&s[a..b], base+a)`, `.split(..)` on an empty window for the flag,
/// the incoming direction is added by `sym_parser_dir!` where an operation reads it.
#[macro_export]
macro_rules! sym_parser_state {
    ($s:ident, $p:ident, $a:ident, $b:ident, $base:ident, $flag:ident, $cap:expr) => {
        sym_str!($s, $cap);
        let $a: usize = kani::any();
        let $b: usize = kani::any();
        kani::assume($a <= $b && $b <= $s.len() && $s.is_char_boundary($a) && $s.is_char_boundary($b));
        let $base: usize = kani::any();
        kani::assume($base <= 1 << 30);
        let $flag: bool = kani::any();
        let mut $p = konst::Parser::with_start_offset(&$s[$a..$b], $base + $a);
        if $flag {
            kani::assume($a == $b);
            $p = match $p.split('x') {
                Ok((_, q)) => q,
                Err(_) => {
                    kani::assume(false);
                    $p
                }
            };
        }
    };
}

/// Gives `$p` an arbitrary incoming direction without changing its window (`skip_back(0)` => FromEnd,
/// `trim_matches(<char at neither end>)` => FromBoth). Only operations that READ the direction need
/// this (`into_error`, `into_other_error`, `parse_direction`); every other operation overwrites it first.
#[macro_export]
macro_rules! sym_parser_dir {
    ($s:ident, $p:ident, $a:ident, $b:ident) => {
        let __dir: u8 = kani::any();
        if __dir == 1 {
            $p = $p.skip_back(0);
        } else if __dir == 2 {
            // trim_matches with a char that is at neither end: window unchanged, direction FromBoth
            let __w = $s[$a..$b].as_bytes();
            kani::assume(__w.is_empty() || (__w[0] != b'~' && __w[__w.len() - 1] != b'~'));
            $p = $p.trim_matches('~');
        }
    };
}

// ------------------------------------------------------------------ drop ledger (C15)

/// `DROPS[id]` counts how often the token with that id was dropped.
pub static mut DROPS: [u8; 24] = [0; 24];

/// A non-Copy value with an identity (`id`) and a payload that must arrive bit-for-bit.
#[derive(Debug)]
pub struct Tok(pub u8, pub u16);

impl Drop for Tok {
    fn drop(&mut self) {
        unsafe {
            DROPS[self.0 as usize] += 1;
        }
    }
}

#[inline]
pub fn drops(id: usize) -> u8 {
    unsafe { DROPS[id] }
}
