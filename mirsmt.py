#!/usr/bin/env python3
"""Second engine: MIR -> SMT (z3) for loop-free functions that Kani 0.68 cannot decide soundly.

Kani 0.68 / CBMC 6.11 mis-model `<`, `>`, `>=` on symbolic `bool` (DESIGN section 15), so the
*ordering* half of C16 for bool (`cmp_bool`, `cmp_option_bool`) is decided here instead: the
functions' MIR is dumped from REPO's current working tree with the nightly compiler on every run,
every path of the (loop-free) control-flow graph is executed symbolically into z3 terms, and for
each path the query  `path-condition /\ result != Ord::cmp(l, r)`  is discharged (unsat = holds for
every input; sat = concrete inputs, replayed natively by the driver before they are reported).

Anything in the MIR that this translator does not know (a statement form, a loop, a call) makes
the result INCONCLUSIVE - never a pass.  The translator is validated on every run by pushing every
concrete input (4 resp. 9 of them) through both the encoding and the natively compiled function.

usage: python3-vt mirsmt.py <repo> <build-dir>     -> JSON on stdout
"""
import json
import os
import re
import subprocess
import sys
import time

import z3

ORD = {"Less": -1, "Equal": 0, "Greater": 1}
ORD_NAME = {v: k for k, v in ORD.items()}
MAX_PATHS = 4096


class Unsupported(Exception):
    pass


def dump_mir(repo, build):
    tdir = os.path.join(build, "mir-target")
    fp = os.path.join(tdir, "debug", ".fingerprint")
    if os.path.isdir(fp):
        for d in os.listdir(fp):
            if d.startswith("konst-"):
                subprocess.run(["rm", "-rf", os.path.join(fp, d)])
    env = dict(os.environ, CARGO_NET_OFFLINE="true", CARGO_TARGET_DIR=tdir, CARGO_TERM_COLOR="never")
    env.pop("RUSTUP_TOOLCHAIN", None)
    p = subprocess.run(["cargo", "+nightly", "rustc", "--offline", "--lib", "-j", "8", "--", "-Zunpretty=mir",
                        "-C", "debug-assertions=off", "-C", "overflow-checks=on"],
                       cwd=os.path.join(repo, "konst"), env=env, stdout=subprocess.PIPE, stderr=subprocess.PIPE,
                       text=True, timeout=900)
    if p.returncode != 0 or not p.stdout.strip():
        raise Unsupported("MIR dump failed: rc=%s %s" % (p.returncode, p.stderr[-600:]))
    return p.stdout


def extract_fn(mir, name):
    """the first (runtime, not CTFE) body named `name`; returns (signature, {bb: [lines]})"""
    m = re.search(r"^fn %s\((.*?)\) -> (.*?) \{\n(.*?)^\}\n" % re.escape(name), mir, re.S | re.M)
    if not m:
        raise Unsupported("function %s not found in the MIR dump" % name)
    # make sure this is not the CTFE body
    head = mir[max(0, m.start() - 20):m.start()]
    if "MIR FOR CTFE" in head:
        raise Unsupported("only the CTFE body of %s was found" % name)
    params = [p.strip() for p in m.group(1).split(", ") if p.strip()]
    body = m.group(3)
    blocks = {}
    for bm in re.finditer(r"^    (bb\d+)(?: \(cleanup\))?: \{\n(.*?)^    \}\n", body, re.S | re.M):
        blocks[bm.group(1)] = [l.strip() for l in bm.group(2).splitlines() if l.strip()]
    if "bb0" not in blocks:
        raise Unsupported("no basic blocks parsed for %s" % name)
    return params, m.group(2), blocks


# ---- values: bool -> z3 Bool; Option<bool> -> ("opt", disc Int, payload Bool); tuple -> ("tup", [..]);
#      isize/discriminant -> z3 Int; Ordering -> python int constant

OPERAND = r"(?:copy |move )?(_\d+)"


def place_read(envv, expr):
    expr = expr.strip()
    expr = re.sub(r"^(copy|move) ", "", expr)
    m = re.fullmatch(r"_\d+", expr)
    if m:
        if expr not in envv:
            raise Unsupported("read of unassigned local " + expr)
        return envv[expr]
    # (_3.0: T)
    m = re.fullmatch(r"\((_\d+)\.(\d+): [^()]*(?:<[^()]*>)?\)", expr)
    if m:
        v = envv.get(m.group(1))
        if not (isinstance(v, tuple) and v[0] == "tup"):
            raise Unsupported("field projection of a non-tuple: " + expr)
        return v[1][int(m.group(2))]
    # (((_3.0: Option<bool>) as Some).0: bool)  /  ((_1 as Some).0: bool)
    m = re.fullmatch(r"\(\((.+) as Some\)\.0: bool\)", expr)
    if m:
        v = place_read(envv, m.group(1))
        if not (isinstance(v, tuple) and v[0] == "opt"):
            raise Unsupported("downcast of a non-Option: " + expr)
        return v[2]
    raise Unsupported("place expression: " + expr)


def b2i(v):
    return z3.If(v, z3.IntVal(1), z3.IntVal(0)) if z3.is_bool(v) else v


def rvalue(envv, rhs):
    rhs = rhs.strip()
    if rhs in ORD:
        return ("ord", ORD[rhs])
    m = re.fullmatch(r"const (true|false)", rhs)
    if m:
        return z3.BoolVal(m.group(1) == "true")
    m = re.fullmatch(r"(Eq|Ne|Lt|Le|Gt|Ge)\((.+?), (.+?)\)", rhs)
    if m:
        a, b = place_read(envv, m.group(2)), place_read(envv, m.group(3))
        if isinstance(a, tuple) or isinstance(b, tuple):
            raise Unsupported("comparison of aggregates: " + rhs)
        if z3.is_bool(a) != z3.is_bool(b):
            raise Unsupported("comparison of mixed sorts: " + rhs)
        op = m.group(1)
        if op == "Eq":
            return a == b
        if op == "Ne":
            return a != b
        # Rust: bool is ordered false < true, i.e. as the integers 0 < 1 (the language reference)
        ai, bi = b2i(a), b2i(b)
        return {"Lt": ai < bi, "Le": ai <= bi, "Gt": ai > bi, "Ge": ai >= bi}[op]
    m = re.fullmatch(r"Not\((.+)\)", rhs)
    if m:
        v = place_read(envv, m.group(1))
        if not z3.is_bool(v):
            raise Unsupported("Not of a non-bool")
        return z3.Not(v)
    m = re.fullmatch(r"discriminant\((.+)\)", rhs)
    if m:
        v = place_read(envv, m.group(1))
        if not (isinstance(v, tuple) and v[0] == "opt"):
            raise Unsupported("discriminant of a non-Option: " + rhs)
        return v[1]
    m = re.fullmatch(r"\((.+?), (.+?)\)", rhs)
    if m and not rhs.startswith("(("):
        try:
            return ("tup", [place_read(envv, m.group(1)), place_read(envv, m.group(2))])
        except Unsupported:
            pass
    return place_read(envv, rhs)


def ref_ord(l, r):
    """Ord for bool as the reference: false < true (spec), as a z3 Int term in {-1,0,1}"""
    li, ri = b2i(l), b2i(r)
    return z3.If(li < ri, -1, z3.If(li == ri, 0, 1))


def ref_ord_opt(lo, ro):
    # Option<T>: None < Some(_); Some(a) vs Some(b) by a vs b   (derive(Ord) on Option, std docs)
    return z3.If(z3.And(lo[1] == 0, ro[1] == 0), 0,
                 z3.If(lo[1] == 0, -1, z3.If(ro[1] == 0, 1, ref_ord(lo[2], ro[2]))))


def decide(name, kind, blocks):
    """returns dict(queries, paths, solver_s, counterexample or None)"""
    if kind == "bool":
        l, r = z3.Bool("l"), z3.Bool("r")
        init = {"_1": l, "_2": r}
        expect = ref_ord(l, r)
        valid = z3.BoolVal(True)
    else:
        ld, rd = z3.Int("l_disc"), z3.Int("r_disc")
        lp, rp = z3.Bool("l_val"), z3.Bool("r_val")
        lo, ro = ("opt", ld, lp), ("opt", rd, rp)
        init = {"_1": lo, "_2": ro}
        expect = ref_ord_opt(lo, ro)
        valid = z3.And(z3.Or(ld == 0, ld == 1), z3.Or(rd == 0, rd == 1))   # validity invariant of Option
    res = _run(blocks, [("bb0", dict(init), [], [])])
    queries = 0
    t0 = time.time()
    cex = None
    covered = []
    for pc, result, trace in res:
        s = z3.Solver()
        s.set("timeout", 60000)
        s.add(valid)
        s.add(*pc)
        # reachability of the path (vacuity witness) - unreachable paths carry no obligation
        queries += 1
        reach = s.check()
        if reach == z3.unknown:
            raise Unsupported("solver returned unknown (reachability)")
        if result is None:
            if reach == z3.sat:
                cex = {"model": model_to_inputs(s.model(), kind), "path": trace, "got": "unreachable-block entered"}
                break
            continue
        if reach == z3.unsat:
            continue
        covered.append(trace)
        s.add(expect != result)
        queries += 1
        v = s.check()
        if v == z3.unknown:
            raise Unsupported("solver returned unknown")
        if v == z3.sat:
            mdl = s.model()
            cex = {"model": model_to_inputs(mdl, kind), "path": trace, "got": ORD_NAME[result],
                   "expected": ORD_NAME[mdl.eval(expect, model_completion=True).as_long()]}
            break
    # totality: the path conditions of the returning paths cover every valid input
    s = z3.Solver()
    s.add(valid)
    s.add(z3.Not(z3.Or([z3.And(pc) if pc else z3.BoolVal(True) for pc, result, _ in res if result is not None])))
    queries += 1
    tot = s.check()
    if tot == z3.sat and cex is None:
        cex = {"model": model_to_inputs(s.model(), kind), "path": [], "got": "no returning path"}
    return {"function": name, "paths_total": len(res), "paths_reachable": len(covered), "queries": queries,
            "solver_s": round(time.time() - t0, 3), "counterexample": cex, "results": res, "init": init, "kind": kind}


def _run(blocks, stack):
    out = []
    n = 0
    while stack:
        bb, envv, pc, trace = stack.pop()
        if bb in trace:
            raise Unsupported("loop in the control-flow graph (block %s revisited)" % bb)
        if bb not in blocks:
            raise Unsupported("unknown block " + bb)
        envv = dict(envv)
        trace = trace + [bb]
        lines = blocks[bb]
        term = lines[-1]
        for st in lines[:-1]:
            if re.match(r"(StorageLive|StorageDead|ConstEvalCounter|nop|FakeRead|PlaceMention|Retag|Coverage)", st):
                continue
            m = re.fullmatch(r"(_\d+) = (.+);", st)
            if not m:
                raise Unsupported("statement: " + st)
            envv[m.group(1)] = rvalue(envv, m.group(2))
        n += 1
        if n > MAX_PATHS * 8:
            raise Unsupported("too many steps")
        if term == "return;":
            r = envv.get("_0")
            if not (isinstance(r, tuple) and r[0] == "ord"):
                raise Unsupported("return value is not an Ordering constant")
            out.append((pc, r[1], trace))
            continue
        if term == "unreachable;":
            out.append((pc, None, trace))
            continue
        m = re.fullmatch(r"goto -> (bb\d+);", term)
        if m:
            stack.append((m.group(1), envv, pc, trace))
            continue
        m = re.fullmatch(r"switchInt\((.+?)\) -> \[(.+)\];", term)
        if m:
            v = place_read(envv, m.group(1))
            if isinstance(v, tuple):
                raise Unsupported("switchInt on an aggregate")
            vi = b2i(v)
            taken = []
            for arm in m.group(2).split(", "):
                k, tgt = arm.split(": ")
                if k == "otherwise":
                    cond = z3.And([vi != t for t in taken]) if taken else z3.BoolVal(True)
                else:
                    cond = vi == int(k)
                    taken.append(int(k))
                stack.append((tgt, envv, pc + [cond], trace))
            continue
        raise Unsupported("terminator: " + term)
    return out


def model_to_inputs(mdl, kind):
    def bv(name):
        return bool(z3.is_true(mdl.eval(z3.Bool(name), model_completion=True)))
    if kind == "bool":
        return {"l": bv("l"), "r": bv("r")}

    def opt(p):
        d = mdl.eval(z3.Int(p + "_disc"), model_completion=True).as_long()
        return None if d == 0 else bv(p + "_val")
    return {"l": opt("l"), "r": opt("r")}


def eval_concrete(dec, lval, rval):
    """run the encoding on one concrete input: which path is taken, what it returns"""
    kind = dec["kind"]
    subs = []
    if kind == "bool":
        subs = [(z3.Bool("l"), z3.BoolVal(lval)), (z3.Bool("r"), z3.BoolVal(rval))]
    else:
        for p, v in (("l", lval), ("r", rval)):
            subs.append((z3.Int(p + "_disc"), z3.IntVal(0 if v is None else 1)))
            subs.append((z3.Bool(p + "_val"), z3.BoolVal(bool(v))))
    hits = []
    for pc, result, trace in dec["results"]:
        c = z3.simplify(z3.substitute(z3.And(pc) if pc else z3.BoolVal(True), *subs))
        if z3.is_true(c):
            hits.append(result)
    if len(hits) != 1:
        return "paths=%d" % len(hits)
    return ORD_NAME.get(hits[0], "unreachable")


def rust_lit(v):
    if v is None:
        return "None"
    if v is True or v is False:
        return "true" if v else "false"
    return str(v)


def rust_opt(v):
    return "None" if v is None else "Some(%s)" % ("true" if v else "false")


def native_table(repo, build):
    """the real functions, natively compiled from REPO, on every concrete input"""
    d = os.path.join(build, "mirsmt_native")
    os.makedirs(os.path.join(d, "src"), exist_ok=True)
    lock = os.path.join(repo, "Cargo.lock")
    if os.path.exists(lock):
        open(os.path.join(d, "Cargo.lock"), "w").write(open(lock).read())
    open(os.path.join(d, "Cargo.toml"), "w").write(
        '[package]\nname = "mirsmt_native"\nversion = "0.0.0"\nedition = "2021"\n[workspace]\n'
        '[dependencies]\nkonst = { path = "%s/konst" }\n' % repo)
    open(os.path.join(d, "src", "main.rs"), "w").write(r'''
use konst::primitive::cmp::{cmp_bool, cmp_option_bool};
fn main() {
    let b = [false, true];
    let o = [None, Some(false), Some(true)];
    for l in b { for r in b {
        println!("cmp_bool|{:?}|{:?}|{:?}|{:?}", l, r, cmp_bool(l, r), l.cmp(&r));
    } }
    for l in o { for r in o {
        println!("cmp_option_bool|{:?}|{:?}|{:?}|{:?}", l, r, cmp_option_bool(l, r), l.cmp(&r));
    } }
}
''')
    env = dict(os.environ, CARGO_NET_OFFLINE="true", CARGO_TARGET_DIR=os.path.join(build, "mirsmt-native-target"),
               CARGO_TERM_COLOR="never")
    env.pop("RUSTUP_TOOLCHAIN", None)
    p = subprocess.run(["cargo", "run", "--offline", "-q", "-j", "8"], cwd=d, env=env, stdout=subprocess.PIPE,
                       stderr=subprocess.PIPE, text=True, timeout=900)
    if p.returncode != 0:
        raise Unsupported("native build of the functions failed: " + p.stderr[-600:])
    rows = {}
    for line in p.stdout.splitlines():
        f, l, r, got, exp = line.split("|")
        rows[(f, l, r)] = (got, exp)
    return rows


def main():
    repo, build = sys.argv[1], sys.argv[2]
    t0 = time.time()
    out = {"engine": "MIR (rustc nightly, -Zunpretty=mir of the current working tree) -> z3 %s" % z3.get_version_string(),
           "functions": [], "inconclusive": [], "violations": [], "translator_validation": None}
    try:
        mir = dump_mir(repo, build)
        native = native_table(repo, build)
        checked = 0
        for name, kind in (("cmp_bool", "bool"), ("cmp_option_bool", "option")):
            params, ret, blocks = extract_fn(mir, name)
            want = ["_1: bool", "_2: bool"] if kind == "bool" else ["_1: Option<bool>", "_2: Option<bool>"]
            if params != want or "Ordering" not in ret:
                raise Unsupported("signature of %s changed: (%s) -> %s" % (name, ", ".join(params), ret))
            dec = decide(name, kind, blocks)
            # translator validation: every concrete input through encoding and native code
            dom = [False, True] if kind == "bool" else [None, False, True]
            for l in dom:
                for r in dom:
                    enc = eval_concrete(dec, l, r)
                    key = (name, (rust_lit(l) if kind == "bool" else rust_opt(l)), (rust_lit(r) if kind == "bool" else rust_opt(r)))
                    if key not in native:
                        raise Unsupported("native table has no row for %r" % (key,))
                    if native[key][0] != enc:
                        raise Unsupported("translator validation failed: %s(%s,%s): encoding says %s, the compiled function returns %s"
                                          % (name, key[1], key[2], enc, native[key][0]))
                    checked += 1
            cex = dec["counterexample"]
            entry = {k: dec[k] for k in ("function", "paths_total", "paths_reachable", "queries", "solver_s")}
            entry["bounds"] = "none needed: loop-free, whole input domain (%d values) symbolic" % (len(dom) ** 2)
            entry["verdict"] = "holds" if cex is None else "counterexample"
            out["functions"].append(entry)
            if cex:
                l, r = cex["model"]["l"], cex["model"]["r"]
                key = (name, (rust_lit(l) if kind == "bool" else rust_opt(l)), (rust_lit(r) if kind == "bool" else rust_opt(r)))
                got, exp = native[key]
                call = "%s(%s, %s)" % (name, key[1], key[2])
                test = ("use konst::primitive::cmp::{cmp_bool, cmp_option_bool};\n#[test]\nfn mirsmt_replay() {\n"
                        "    let (l, r) = (%s, %s);\n    assert_eq!(%s(l, r), l.cmp(&r));\n}\n" % (key[1], key[2], name))
                out["violations"].append({"function": name, "call": call, "solver_says": cex.get("got"),
                                          "expected": cex.get("expected"), "native_got": got, "native_expected": exp,
                                          "reproduces_natively": got != exp, "path": cex.get("path"), "test": test})
        out["translator_validation"] = "%d concrete inputs agreed between the encoding and the natively compiled functions" % checked
    except Unsupported as ex:
        out["inconclusive"].append(str(ex))
    except Exception as ex:  # noqa
        out["inconclusive"].append("internal error: %r" % (ex,))
    out["wall_s"] = round(time.time() - t0, 1)
    out["queries"] = sum(f["queries"] for f in out["functions"])
    out["solver_s"] = round(sum(f["solver_s"] for f in out["functions"]), 3)
    json.dump(out, sys.stdout, indent=1)
    return 0


if __name__ == "__main__":
    sys.exit(main())
