"""Shared helpers for the program-family generators (C10, C15, C18, C19)."""
import argparse, json, os, random, shutil


def parse_args():
    ap = argparse.ArgumentParser()
    ap.add_argument("--tier", default="quick")
    ap.add_argument("--seed", type=int, default=0)
    ap.add_argument("--out", required=True, help="path of harness/src/gen/<id>.rs; programs go to harness/src/gen/<id>/")
    return ap.parse_args()


class Family:
    """Collects generated programs. Each program is one self-contained module file:
       plain Rust (`pub fn run..`, compiled by the acceptance check with the ordinary toolchain)
       plus a `#[cfg(kani)] pub mod h { .. tiers!{..} }` harness part."""

    def __init__(self, args, pid):
        self.args = args
        self.pid = pid
        self.dir = os.path.splitext(args.out)[0]
        if os.path.isdir(self.dir):
            shutil.rmtree(self.dir)
        os.makedirs(self.dir, exist_ok=True)
        self.programs = []
        self.rng = random.Random(args.seed)

    def add(self, name, desc, plain_src, harness_src, accept_expected=True):
        path = os.path.join(self.dir, name + ".rs")
        with open(path, "w") as f:
            f.write("// generated program %s: %s\n" % (name, desc))
            f.write("#![allow(unused, clippy::all)]\n")
            f.write(plain_src.rstrip() + "\n\n")
            f.write("#[cfg(kani)]\npub mod h {\n    use super::*;\n    use crate::util::*;\n")
            f.write(harness_src.rstrip() + "\n}\n")
        self.programs.append({"name": name, "desc": desc, "file": path, "accept_expected": accept_expected})

    def finish(self, extra=None):
        # the module list is (re)written by the driver after the acceptance check; write all for now
        write_modlist(self.args.out, [p["name"] for p in self.programs])
        info = {"programs": len(self.programs), "dir": self.dir, "list": self.programs,
                "tier": self.args.tier, "seed": self.args.seed}
        if extra:
            info.update(extra)
        print(json.dumps(info))


def write_modlist(out, names):
    d = os.path.basename(os.path.splitext(out)[0])
    with open(out, "w") as f:
        f.write("// generated module list (accepted programs only)\n")
        for n in names:
            f.write('#[path = "%s/%s.rs"]\npub mod %s;\n' % (d, n, n))
