#!/usr/bin/env python3
"""C18 program family: parser_method! invocations (6 methods) over literal atoms of every kind
(plain, every escape, line continuation, raw strings with 0-2 hashes, multi-byte text, the empty
literal, concat!(..)). Programs are enumerated/sampled (VERIF_SEED); the parser input is symbolic."""
import sys, os
sys.path.insert(0, os.path.dirname(__file__))
from common import parse_args, Family

# (token text, tag). Token text is pasted verbatim both into the macro and into a `&str` const.
ATOMS = [
    ('"a"', "plain"), ('"ab"', "plain"), ('"b"', "plain"), ('"ba"', "plain"), ('"aa"', "plain"),
    ('"\\u{e9}"', "u-escape 2-byte"), ('"é"', "raw 2-byte char"), ('"€"', "3-byte char"), ('"\U0001F600"', "4-byte char"),
    ('"\\n"', "\\n"), ('"\\r\\t"', "\\r\\t"), ('"\\\\"', "backslash"), ('"\\0"', "\\0"), ('"\\\'"', "\\'"), ('"\\""', '\\"'),
    ('"\\x41"', "\\x41"), ('"\\x00"', "\\x00"), ('"\\x7F"', "\\x7F"), ('"\\x7f"', "\\x7f lowercase"),
    ('"\\u{0}"', "\\u{0}"), ('"\\u{D7FF}"', "\\u{D7FF}"), ('"\\u{10FFFF}"', "\\u{10FFFF}"), ('"\\u{00e9}"', "\\u with leading zeros"),
    ('"a\\\n     b"', "line continuation"), ('"a\\\n\t \t b"', "line continuation with tabs"), ('"a\\\n\\\n  b"', "two line continuations"),
    ('r"a\\n"', "raw r\"..\""), ('r#"b"c"#', "raw r#\"..\"#"), ('r##"x"#y"##', "raw r##"), ('r""', "empty raw"),
    ('""', "empty"),
    ('concat!("a", "b")', "concat!"), ('concat!()', "empty concat!"), ('concat!("a", concat!("\\n", r"c"))', "nested concat!"),
    ('concat!("\\u{e9}", "\\x41",)', "concat! with trailing comma"),
]
# atoms whose handling is in question (kept separate so that they can be reported individually)
SUSPECT = [
    ('"\\u{1_F600}"', "\\u{..} with underscore"),
    ('"a\\\n b"', "line continuation followed by U+00A0 (non-ASCII whitespace)"),
]

METHODS = ["strip_prefix", "strip_suffix", "find_skip", "rfind_skip", "trim_start_matches", "trim_end_matches"]


def program(name, method, branches, cap):
    """branches: list of lists of atom token texts"""
    consts = "pub const ALTS: &[&[&str]] = &[%s];\n" % ", ".join("&[%s]" % ", ".join(b) for b in branches)
    if method.startswith("trim"):
        flat = [a for b in branches for a in b]
        consts = "pub const ALTS: &[&[&str]] = &[&[%s]];\n" % ", ".join(flat)
        inv = "parser_method!{parser, %s; %s}" % (method, " | ".join(flat))
        run = "pub fn run(mut parser: Parser<'_>) -> (u8, Parser<'_>) {\n    %s;\n    (0, parser)\n}\n" % inv
    else:
        arms = "".join("        %s => %d,\n" % (" | ".join(b), i) for i, b in enumerate(branches))
        inv = "parser_method!{parser, %s;\n%s        _ => 255\n    }" % (method, arms)
        run = "pub fn run(mut parser: Parser<'_>) -> (u8, Parser<'_>) {\n    let b: u8 = %s;\n    (b, parser)\n}\n" % inv
    plain = "use konst::{parser_method, Parser};\n\n" + consts + run
    front = method in ("strip_prefix", "find_skip", "trim_start_matches")
    spec = {"strip_prefix": "spec_strip_prefix(w, ALTS)", "strip_suffix": "spec_strip_suffix(w, ALTS)",
            "find_skip": "spec_find_skip(w, ALTS)", "rfind_skip": "spec_rfind_skip(w, ALTS)",
            "trim_start_matches": "Some((0usize, spec_trim_start(w, ALTS[0], %d)))" % (cap + 2),
            "trim_end_matches": "Some((0usize, spec_trim_end(w, ALTS[0], %d)))" % (cap + 2)}[method]
    if front:
        post = ("assert!(r.len() == w.len() - n && (r.is_empty() || r.as_ptr() == s[n..].as_ptr()));\n"
                "                assert!(q.start_offset() == base + n && q.end_offset() == base + w.len());")
    else:
        post = ("assert!(r.len() == w.len() - n && (r.is_empty() || r.as_ptr() == s.as_ptr()));\n"
                "                assert!(q.start_offset() == base && q.end_offset() == base + w.len() - n);")
    harness = """
    use crate::c18::*;
    fn check() {
        sym_str!(s, %d);
        let base: usize = kani::any();
        kani::assume(base <= 1 << 20);
        let w = s.as_bytes();
        // incoming direction is the opposite of the one the form must set
        let p = Parser::with_start_offset(s, base)%s;
        let dir_in = p.parse_direction();
        let (b, q) = run(p);
        let r = q.remainder();
        match %s {
            Some((wb, n)) => {
                assert!(b as usize == wb);
                %s
                // like the equivalent Parser method call, the form records the end it worked from
                assert!(q.parse_direction() == konst::parsing::ParseDirection::%s);
            }
            None => {
                // default branch: the parser is unchanged
                assert!(b == 255);
                assert!(r.len() == w.len() && (r.is_empty() || r.as_ptr() == s.as_ptr()));
                assert!(q.start_offset() == base && q.end_offset() == base + w.len());
                assert!(q.parse_direction() == dir_in);
            }
        }
        // (a program whose literals are all longer than the input bound can never take a branch)
        let fits = { let mut f = false; let mut bi = 0; while bi < ALTS.len() { let mut ai = 0; while ai < ALTS[bi].len() { f |= ALTS[bi][ai].len() <= %d; ai += 1; } bi += 1; } f };
        must_reach!(b != 255 || !fits, "a branch was taken (trim forms: the macro ran)");
        must_reach!(w.len() == %d, "full-length input");
    }
    tiers1! { %s: unwind(%d, %d), check(), check(),
        calls("konst::parser_method!(.., %s; ..)", "konst_proc_macros::__priv_bstr_start/__priv_bstr_end (output only)"),
        bounds("every valid UTF-8 input <=%d bytes, base <= 2^20; literals: %s", "same") }
""" % (cap, ".skip_back(0)" if front else "", spec, post, "FromStart" if front else "FromEnd", cap, cap, name, cap + 4, cap + 4, method, cap,
       " / ".join(" | ".join(b) for b in branches).replace("\\", "\\\\").replace('"', "'").replace("\n", "<newline>"))
    return plain, harness, inv


def main():
    args = parse_args()
    fam = Family(args, "C18")
    rng = fam.rng
    per_method = 5 if args.tier == "quick" else 12
    n = 0
    toks = [a for a, _ in ATOMS]
    # every atom appears at least once as a single strip_prefix / strip_suffix alternative next to a plain one
    for j, (tok, tag) in enumerate(ATOMS + SUSPECT):
        method = "strip_prefix" if j % 2 == 0 else "strip_suffix"
        name = "a%02d" % j
        plain, harness, inv = program(name, method, [[tok], ['"zz"']], 3)
        fam.add(name, "atom %s (%s): %s" % (tag, method, inv.replace("\n", " ")[:100]), plain, harness)
    # decoded length is only needed to keep the find forms inside the solver's reach in the quick tier
    short = [t for t in toks if t in ('"a"', '"ab"', '"b"', '"ba"', '"aa"', '"\\u{e9}"', '"é"', '"\\n"', '"\\r\\t"', '"\\\\"', '"\\0"',
                                      '"\\x41"', '"\\x00"', '"\\x7F"', '"\\u{0}"', '""', 'r""', 'concat!("a", "b")', 'concat!()', '"a\\\n     b"')]
    for method in METHODS:
        cap = 4 if method.startswith("strip") else 3
        for k in range(per_method if not (args.tier == "quick" and "find" in method) else 3):
            if method in ("find_skip", "rfind_skip") and args.tier == "quick":
                nb = rng.randint(1, 2)
                branches = [[rng.choice(short)] for _ in range(nb)]
            else:
                nb = rng.randint(1, 3)
                branches = [[rng.choice(toks) for _ in range(rng.randint(1, 2))] for _ in range(nb)]
            name = "m%03d" % n
            plain, harness, inv = program(name, method, branches, cap)
            fam.add(name, "%s: %s" % (method, inv.replace("\n", " ")[:140]), plain, harness)
            n += 1
    fam.finish({"atoms": len(ATOMS), "suspect_atoms": len(SUSPECT)})


if __name__ == "__main__":
    main()
