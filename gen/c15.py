#!/usr/bin/env python3
"""C15 program family: destructure! pattern shapes (DESIGN section 12). Programs are enumerated;
the field payloads are decided by the solver. Every Tok field carries an id; the program returns,
per id, Some(token) if the pattern bound it (moved out) or None if the pattern dropped it (`_`, `..`)."""
import sys, os
sys.path.insert(0, os.path.dirname(__file__))
from common import parse_args, Family

PROGRAMS = []


def prog(name, desc, n, m, type_defs, ty, ctor, invocation, binds, plain=(), post=""):
    """n Tok fields t0..t{n-1}, m plain u32 fields p0..p{m-1};
    binds[id] = Rust expression of type Tok (moved-out binding) or None (dropped by the macro);
    plain = expressions that must equal p0.., in order; post = extra statements after the macro."""
    PROGRAMS.append(dict(name=name, desc=desc, n=n, m=m, type_defs=type_defs, ty=ty, ctor=ctor, inv=invocation,
                         binds=binds, plain=list(plain), post=post))


def toks(n):
    return ", ".join("t%d" % i for i in range(n))


# ---- braced structs
S3 = "pub struct S3 { pub a: Tok, pub b: u32, pub c: Tok }\n"
prog("braced_path", "braced struct, path form", 2, 1, S3, "S3", "S3 { a: t0, b: p0, c: t1 }",
     "konst::destructure!{S3 {a, b, c} = v}", {0: "a", 1: "c"}, ["b"])
prog("braced_path_annot", "braced struct, path form with type annotation and trailing comma", 2, 1, S3, "S3", "S3 { a: t0, b: p0, c: t1 }",
     "konst::destructure!{S3 {a, b, c,}: S3 = v}", {0: "a", 1: "c"}, ["b"])
prog("braced_renamed_wild", "braced struct, renamed field and `_` field", 2, 1, S3, "S3", "S3 { a: t0, b: p0, c: t1 }",
     "konst::destructure!{S3 {a: x, b: _, c: _} = v}", {0: "x", 1: None}, [])
prog("braced_self_path", "braced struct, multi-segment path", 2, 1, S3, "S3", "S3 { a: t0, b: p0, c: t1 }",
     "konst::destructure!{self::S3 {a, b, c} = v}", {0: "a", 1: "c"}, ["b"])
prog("braced_comma_form", "braced struct, `Path, {..}` comma form", 2, 1, S3, "S3", "S3 { a: t0, b: p0, c: t1 }",
     "konst::destructure!{S3, {c, b, a} = v}", {0: "a", 1: "c"}, ["b"])
G2 = "pub struct G2<T, U> { pub first: T, pub second: U, pub marker: core::marker::PhantomData<T> }\n"
prog("braced_generic_type_form", "generic braced struct through the `$struct_path:path` (type) form", 2, 0, G2, "G2<Tok, Tok>",
     "G2 { first: t0, second: t1, marker: core::marker::PhantomData }",
     "konst::destructure!{G2::<Tok, Tok> {first, second, marker: _} = v}", {0: "first", 1: "second"}, [])
prog("braced_generic_annot", "generic braced struct, path form + type annotation", 2, 0, G2, "G2<Tok, Tok>",
     "G2 { first: t0, second: t1, marker: core::marker::PhantomData }",
     "konst::destructure!{G2 {first: _, second, marker} : G2<Tok, Tok> = v}", {0: None, 1: "second"}, [], post="let _: core::marker::PhantomData<Tok> = marker;")
E0 = "pub struct E0 {}\n"
prog("braced_empty", "empty braced struct", 0, 0, E0, "E0", "E0 {}", "konst::destructure!{E0 {} = v}", {}, [])
N1 = "pub struct N1 { pub pair: (u32, u32), pub t: Tok }\n"
prog("braced_nested_pattern", "nested tuple pattern in a field", 1, 2, N1, "N1", "N1 { pair: (p0, p1), t: t0 }",
     "konst::destructure!{N1 {pair: (x, y), t} = v}", {0: "t"}, ["x", "y"])
PK = "#[repr(C, packed)]\npub struct Pk { pub a: u8, pub b: Tok, pub c: u32, pub d: Tok }\n"
prog("packed_struct", "#[repr(C, packed)] struct (unaligned fields)", 2, 1, PK, "Pk", "Pk { a: 7, b: t0, c: p0, d: t1 }",
     "konst::destructure!{Pk {a, b, c, d} = v}", {0: "b", 1: "d"}, ["c"], post="assert!(a == 7);")
PK2 = "#[repr(C, packed(2))]\npub struct Pk2 { pub a: u8, pub b: u32, pub c: Tok }\n"
prog("packed2_struct", "#[repr(C, packed(2))] struct with a dropped field", 1, 1, PK2, "Pk2", "Pk2 { a: 1, b: p0, c: t0 }",
     "konst::destructure!{Pk2 {a: _, b, c: _} = v}", {0: None}, ["b"])

# ---- tuple structs
P3 = "pub struct P3(pub Tok, pub u32, pub Tok);\n"
prog("tuple_struct_path", "tuple struct, path form", 2, 1, P3, "P3", "P3(t0, p0, t1)",
     "konst::destructure!{P3(x, y, z) = v}", {0: "x", 1: "z"}, ["y"])
prog("tuple_struct_wild_annot", "tuple struct with `_` and annotation", 2, 1, P3, "P3", "P3(t0, p0, t1)",
     "konst::destructure!{P3(_, y, z,): P3 = v}", {0: None, 1: "z"}, ["y"])
GP = "pub struct GP<T>(pub T, pub T);\n"
prog("tuple_struct_type_form", "generic tuple struct through the `path ,` (type) form", 2, 0, GP, "GP<Tok>", "GP(t0, t1)",
     "konst::destructure!{GP::<Tok>, (x, y) = v}", {0: "x", 1: "y"}, [])
prog("tuple_struct_comma_path", "tuple struct, `Path, (..)` comma form", 2, 0, GP, "GP<Tok>", "GP(t0, t1)",
     "konst::destructure!{GP, (x, _) = v}", {0: "x", 1: None}, [])
U0 = "pub struct U0();\n"
prog("tuple_struct_empty", "empty tuple struct", 0, 0, U0, "U0", "U0()", "konst::destructure!{U0() = v}", {}, [])

# ---- tuples
for k in (1, 2, 3, 8, 16):
    ty = "(" + "".join("Tok, " for _ in range(k)) + ")"
    ctor = "(" + "".join("t%d, " % i for i in range(k)) + ")"
    pat = "(" + ", ".join("x%d" % i for i in range(k)) + ("," if k == 1 else "") + ")"
    prog("tuple_%d" % k, "tuple of arity %d, all bound" % k, k, 0, "", ty, ctor, "konst::destructure!{%s = v}" % pat,
         {i: "x%d" % i for i in range(k)}, [])
    if k >= 2:
        w = k // 2
        pat = "(" + ", ".join("_" if i == w else "x%d" % i for i in range(k)) + ")"
        prog("tuple_%d_wild_%d" % (k, w), "tuple of arity %d with `_` at position %d, annotated" % (k, w), k, 0, "", ty, ctor,
             "konst::destructure!{%s: %s = v}" % (pat, ty), {i: (None if i == w else "x%d" % i) for i in range(k)}, [])
prog("tuple_0", "unit tuple", 0, 0, "", "()", "()", "konst::destructure!{() = v}", {}, [])
prog("tuple_mixed", "tuple mixing Tok, plain and nested pattern", 2, 2, "", "(Tok, (u32, u32), Tok)", "(t0, (p0, p1), t1)",
     "konst::destructure!{(a, (x, y), b) = v}", {0: "a", 1: "b"}, ["x", "y"])

# ---- arrays
def arr(n):
    return "[Tok; %d]" % n, "[" + toks(n) + "]"
ty, ctor = arr(3)
prog("array_all", "array, all elements bound", 3, 0, "", ty, ctor, "konst::destructure!{[a, b, c] = v}", {0: "a", 1: "b", 2: "c"}, [])
prog("array_wild_annot", "array with `_` and type annotation", 3, 0, "", ty, ctor, "konst::destructure!{[a, _, c]: [Tok; 3] = v}", {0: "a", 1: None, 2: "c"}, [])
prog("array_paren_pat", "array with a parenthesised pattern", 3, 0, "", ty, ctor, "konst::destructure!{[(a), b, (_)] = v}", {0: "a", 1: "b", 2: None}, [])
ty, ctor = arr(5)
prog("array_prefix_rest", "array `[a, rest @ ..]`", 5, 0, "", ty, ctor, "konst::destructure!{[a, rest @ ..] = v}",
     {0: "a", 1: "r0", 2: "r1", 3: "r2", 4: "r3"}, [], post="let [r0, r1, r2, r3] = rest;")
prog("array_rest_suffix", "array `[rest @ .., z]`", 5, 0, "", ty, ctor, "konst::destructure!{[rest @ .., z] = v}",
     {0: "r0", 1: "r1", 2: "r2", 3: "r3", 4: "z"}, [], post="let [r0, r1, r2, r3] = rest;")
prog("array_prefix_rest_suffix", "array `[a, b, rest @ .., z]`", 5, 0, "", ty, ctor, "konst::destructure!{[a, b, rest @ .., z] = v}",
     {0: "a", 1: "b", 2: "r0", 3: "r1", 4: "z"}, [], post="let [r0, r1] = rest;")
prog("array_dotdot", "array `[a, .., z]` (middle dropped)", 5, 0, "", ty, ctor, "konst::destructure!{[a, .., z] = v}",
     {0: "a", 1: None, 2: None, 3: None, 4: "z"}, [])
prog("array_dotdot_only_annot", "array `[..]` with annotation (everything dropped)", 5, 0, "", ty, ctor, "konst::destructure!{[..]: [Tok; 5] = v}",
     {i: None for i in range(5)}, [])
prog("array_wild_rest", "array `[_, rest @ .., _]`", 5, 0, "", ty, ctor, "konst::destructure!{[_, rest @ .., _] = v}",
     {0: None, 1: "r0", 2: "r1", 3: "r2", 4: None}, [], post="let [r0, r1, r2] = rest;")
prog("array_empty_rest", "array where `rest @ ..` is empty", 2, 0, "", "[Tok; 2]", "[t0, t1]", "konst::destructure!{[a, rest @ .., z] = v}",
     {0: "a", 1: "z"}, [], post="let []: [Tok; 0] = rest;")
prog("array_empty", "empty array", 0, 0, "", "[Tok; 0]", "[]", "konst::destructure!{[] = v}", {}, [])
prog("array_empty_dotdot", "`[..]` on an empty array", 0, 0, "", "[Tok; 0]", "[]", "konst::destructure!{[..]: [Tok; 0] = v}", {}, [])
ZS = "pub struct Z(pub core::marker::PhantomData<u64>, pub Tok, pub ());\n"
prog("zst_fields", "tuple struct with zero-sized fields", 1, 0, ZS, "Z", "Z(core::marker::PhantomData, t0, ())",
     "konst::destructure!{Z(_, t, unit) = v}", {0: "t"}, [], post="let () = unit;")


def emit(fam, p):
    n, m = p["n"], p["m"]
    nn = max(n, 1)
    out_elems = ", ".join(("Some(%s)" % p["binds"][i]) if p["binds"].get(i) else "None" for i in range(n))
    plain_elems = ", ".join(p["plain"])
    plain_src = """use crate::util::Tok;
%s
pub fn run(v: %s) -> ([Option<Tok>; %d], [u32; %d], [u8; %d]) {
    %s
    // ledger snapshot taken immediately after the macro statement: `_` / `..` elements must be gone by now
    let snap: [u8; %d] = [%s];
    %s
    ([%s], [%s], snap)
}
""" % (p["type_defs"], p["ty"], n, len(p["plain"]), n, p["inv"], n, ", ".join("drops(%d)" % i for i in range(n)), p["post"], out_elems, plain_elems)
    # in the acceptance crate there is no crate::util: provide a local Tok there
    plain_src = plain_src.replace("use crate::util::Tok;", "#[cfg(kani)]\nuse crate::util::{Tok, drops};\n#[cfg(not(kani))]\n#[derive(Debug)]\npub struct Tok(pub u8, pub u16);\n#[cfg(not(kani))]\nimpl Drop for Tok { fn drop(&mut self) {} }\n#[cfg(not(kani))]\nfn drops(_: usize) -> u8 { 0 }")
    mk_t = "\n        ".join("let t%d = Tok(%d, pay[%d]);" % (i, i, i) for i in range(n))
    mk_p = "\n        ".join("let p%d: u32 = kani::any();" % j for j in range(m))
    checks = []
    for i in range(n):
        checks.append("assert!(snap[%d] == %d);" % (i, 0 if p["binds"].get(i) else 1))
        if p["binds"].get(i):
            checks.append("match &out[%d] { Some(t) => assert!(t.0 == %d && t.1 == pay[%d] && drops(%d) == 0), None => assert!(false) }" % (i, i, i, i))
        else:
            checks.append("assert!(out[%d].is_none() && drops(%d) == 1);" % (i, i))
    for j, e in enumerate(p["plain"]):
        checks.append("assert!(plain[%d] == p%d);" % (j, j))
    final = "\n        ".join("assert!(drops(%d) == 1);" % i for i in range(n))
    harness = """
    fn check() {
        let pay: [u16; %d] = kani::any();
        %s
        %s
        let v: %s = %s;
        let (out, plain, snap) = run(v);
        %s
        drop(out);
        // after the caller dropped what it was handed: every token exactly once
        %s
        must_reach!("destructured and ledger balanced");
    }
    tiers1! { %s: unwind(20, 20), check(), check(),
        calls("konst::destructure!"), bounds("every payload of the %d token field(s) and %d plain field(s); pattern: %s", "same"), exhaustive }
""" % (nn, mk_t, mk_p, p["ty"], p["ctor"], "\n        ".join(checks), final, p["name"], n, m, p["inv"].replace('"', "'").replace("konst::destructure!", ""))
    fam.add(p["name"], p["desc"] + ": `" + p["inv"] + "`", plain_src, harness)


def main():
    args = parse_args()
    fam = Family(args, "C15")
    for p in PROGRAMS:
        emit(fam, p)
    fam.finish({"shapes": len(PROGRAMS)})


if __name__ == "__main__":
    main()
