#!/usr/bin/env python3
"""C19 program family: rebind_if_ok! / try_rebind! for arity 1..=6 x position kinds
{existing place, `let x`, `let x: u8`, `_`}. Programs are enumerated (all 4^k for small k, a seeded
sample above); the payload values are decided by the solver."""
import itertools, sys, os
sys.path.insert(0, os.path.dirname(__file__))
from common import parse_args, Family

KINDS = ["place", "let", "lett", "wild"]


def pattern(kinds, single_paren):
    parts = []
    for i, k in enumerate(kinds):
        parts.append({"place": "v%d" % i, "let": "let b%d" % i, "lett": "let b%d: u8" % i, "wild": "_"}[k])
    # (`let` patterns are documented to need the parenthesised/tuple form)
    if len(kinds) == 1 and not single_paren and kinds[0] in ("place", "wild"):
        return parts[0]
    return "(" + ", ".join(parts) + ")"


def program(name, form, kinds, single_paren=False):
    k = len(kinds)
    payload_ty = "u8" if k == 1 else "(" + ", ".join(["u8"] * k) + ")"
    pat = pattern(kinds, single_paren)
    decl = "".join("    let mut v%d: u8 = init[%d];\n" % (i, i) for i in range(k))
    store_lets = "".join("        lets[%d] = b%d;\n" % (i, i) for i, kd in enumerate(kinds) if kd in ("let", "lett"))
    collect = "    let places = [%s];\n" % ", ".join("v%d" % i for i in range(k))
    if form == "if_ok_code":
        body = "    rebind_if_ok!{%s = input =>\n        took = true;\n%s    }\n" % (pat, store_lets)
        ret_ty = "([u8; %d], [u8; %d], bool)" % (k, k)
        fn = ("pub fn run(input: Result<%s, u8>, init: [u8; %d]) -> %s {\n%s    let mut lets = init;\n    let mut took = false;\n%s%s"
              "    (places, lets, took)\n}\n") % (payload_ty, k, ret_ty, decl, body, collect)
    elif form == "if_ok":
        body = "    rebind_if_ok!{%s = input}\n" % pat
        fn = ("pub fn run(input: Result<%s, u8>, init: [u8; %d]) -> ([u8; %d], [u8; %d], bool) {\n%s%s%s"
              "    (places, init, input.is_ok())\n}\n") % (payload_ty, k, k, k, decl, body, collect)
    else:  # try_rebind: let bindings stay in scope after the macro
        store = "".join("    lets[%d] = b%d;\n" % (i, i) for i, kd in enumerate(kinds) if kd in ("let", "lett"))
        body = "    try_rebind!{%s = input}\n" % pat
        fn = ("pub fn run(input: Result<%s, u8>, init: [u8; %d]) -> Result<([u8; %d], [u8; %d], bool), u8> {\n%s    let mut lets = init;\n%s%s%s"
              "    Ok((places, lets, true))\n}\n") % (payload_ty, k, k, k, decl, body, store, collect)
    plain = "use konst::{rebind_if_ok, try_rebind};\n\n" + fn

    # expectations
    comp = (lambda i: "x" if k == 1 else "x.%d" % i)
    exp_ok = []
    for i, kd in enumerate(kinds):
        if kd == "place":
            exp_ok.append("assert!(places[%d] == %s);" % (i, comp(i)))
        else:
            exp_ok.append("assert!(places[%d] == init[%d]);" % (i, i))
        if kd in ("let", "lett") and form != "if_ok":
            exp_ok.append("assert!(lets[%d] == %s);" % (i, comp(i)))
        else:
            exp_ok.append("assert!(lets[%d] == init[%d]);" % (i, i))
    exp_ok = "\n                ".join(exp_ok)
    unchanged = "\n                ".join("assert!(places[%d] == init[%d] && lets[%d] == init[%d]);" % (i, i, i, i) for i in range(k))
    if form == "try":
        check = """
    fn check() {
        let input: Result<%s, u8> = kani::any();
        let init: [u8; %d] = kani::any();
        match (run(input, init), input) {
            (Ok((places, lets, _)), Ok(x)) => {
                %s
            }
            (Err(e), Err(e2)) => assert!(e == e2),
            _ => assert!(false),
        }
        must_reach!(input.is_ok(), "Ok payload");
        must_reach!(input.is_err(), "Err payload");
    }""" % (payload_ty, k, exp_ok)
    else:
        check = """
    fn check() {
        let input: Result<%s, u8> = kani::any();
        let init: [u8; %d] = kani::any();
        let (places, lets, took) = run(input, init);
        match input {
            Ok(x) => {
                assert!(took);
                %s
            }
            Err(_) => {
                assert!(!took);
                %s
            }
        }
        must_reach!(input.is_ok(), "Ok payload");
        must_reach!(input.is_err(), "Err payload");
    }""" % (payload_ty, k, exp_ok, unchanged)
    macro = {"if_ok_code": "konst::rebind_if_ok!(.. => code)", "if_ok": "konst::rebind_if_ok!", "try": "konst::try_rebind!"}[form]
    harness = check + """
    tiers1! { %s: unwind(8, 8), check(), check(),
        calls("%s"), bounds("every Ok/Err payload (u8 components), every initial value of the places", "same"), exhaustive }
""" % (name, macro)
    desc = "%s arity %d pattern `%s`" % (form, k, pat)
    return plain, harness, desc


def main():
    args = parse_args()
    fam = Family(args, "C19")
    combos = []
    full_upto = 2 if args.tier == "quick" else 3
    sample = {3: 10, 4: 5, 5: 5, 6: 5} if args.tier == "quick" else {4: 24, 5: 24, 6: 24}
    for k in range(1, 7):
        allc = list(itertools.product(KINDS, repeat=k))
        if k <= full_upto:
            chosen = allc
        else:
            chosen = fam.rng.sample(allc, min(sample.get(k, 5), len(allc)))
            # always include the all-place and the all-let pattern (the documented common shapes)
            for must in (tuple(["place"] * k), tuple(["let"] * (k - 1) + ["place"])):
                if must not in chosen:
                    chosen.append(must)
        for c in chosen:
            combos.append(c)
    n = 0
    for kinds in combos:
        forms = ["if_ok_code", "try"] + (["if_ok"] if all(kd in ("place", "wild") for kd in kinds) else [])
        for form in forms:
            name = "p%03d" % n
            plain, harness, desc = program(name, form, list(kinds))
            fam.add(name, desc, plain, harness)
            n += 1
    # assignment order is observable when the same place is listed twice: the LAST listed component wins
    for k in (2, 3, 6):
        for form in ("if_ok", "try"):
            name = "p%03d" % n
            payload_ty = "(" + ", ".join(["u8"] * k) + ")"
            pat = "(" + ", ".join(["v0"] * k) + ")"
            if form == "if_ok":
                plain = ("use konst::{rebind_if_ok, try_rebind};\n\npub fn run(input: Result<%s, u8>, init: u8) -> Result<u8, u8> {\n    let mut v0 = init;\n"
                         "    rebind_if_ok!{%s = input}\n    Ok(v0)\n}\n") % (payload_ty, pat)
            else:
                plain = ("use konst::{rebind_if_ok, try_rebind};\n\npub fn run(input: Result<%s, u8>, init: u8) -> Result<u8, u8> {\n    let mut v0 = init;\n"
                         "    try_rebind!{%s = input}\n    Ok(v0)\n}\n") % (payload_ty, pat)
            err_expect = "Ok(init)" if form == "if_ok" else "Err(e)"
            harness = """
    fn check() {
        let input: Result<%s, u8> = kani::any();
        let init: u8 = kani::any();
        match input {
            Ok(x) => assert!(run(input, init) == Ok(x.%d)),
            Err(e) => assert!(run(input, init) == %s),
        }
        must_reach!(input.is_ok(), "Ok payload");
    }
    tiers1! { %s: unwind(8, 8), check(), check(),
        calls("konst::%s! (same place listed %d times)"), bounds("every payload", "same"), exhaustive }
""" % (payload_ty, k - 1, err_expect, name, "rebind_if_ok" if form == "if_ok" else "try_rebind", k)
            fam.add(name, "%s arity %d, same place in every position (assignment order observable)" % (form, k), plain, harness)
            n += 1
    # single value written with parentheses: `(v0)`
    for form in ("if_ok_code", "try"):
        name = "p%03d" % n
        plain, harness, desc = program(name, form, ["place"], single_paren=True)
        fam.add(name, desc, plain, harness)
        n += 1
    fam.finish()


if __name__ == "__main__":
    main()
