#!/usr/bin/env python3
"""C10 program family: typed enumeration of iterator-DSL chains (DESIGN section 12).

A program = source + adapter prefix + consumer. Only compositions that type-check both as a konst
chain and as the identical std chain are emitted (the generator tracks item shape, DoubleEnded and
ExactSize-ness of the std chain). Per program the solver decides all inputs (u8 arrays of length
<= 4, all take/skip/nth arguments, every member of the closure families).

Oracle: the identical std chain. Two documented exceptions are encoded (enumerate numbers from 0 in
iteration order; rposition counts from the back) by reversing the sources instead of the chain
(`model` oracle). Chains where take/skip/zip precede a reversing method are the known finding
`len_dependent_adapter_before_rev`: with the kf feature they are checked against the model oracle
(residual), and one witness program checks the std oracle (expected to fail)."""
import itertools, sys, os
sys.path.insert(0, os.path.dirname(__file__))
from common import parse_args, Family

SUPPORT = r'''
// shared by all generated C10 programs
pub trait Obs {
    /// (value, address-or-0): what a test can observe about an item
    fn obs(&self) -> (u8, usize);
    fn val(&self) -> u8 {
        self.obs().0
    }
}
impl Obs for u8 {
    fn obs(&self) -> (u8, usize) {
        (*self, 0)
    }
}
impl<T: Obs> Obs for &T {
    fn obs(&self) -> (u8, usize) {
        let (v, a) = (**self).obs();
        (v, if a == 0 { (*self) as *const T as usize } else { a })
    }
}
impl<T: Obs> Obs for (usize, T) {
    fn obs(&self) -> (u8, usize) {
        let (v, a) = self.1.obs();
        ((self.0 as u8).wrapping_mul(31) ^ v, a)
    }
}
impl<A: Obs, B: Obs> Obs for (A, B) {
    fn obs(&self) -> (u8, usize) {
        let (v0, a0) = self.0.obs();
        let (v1, a1) = self.1.obs();
        (v0.wrapping_mul(7) ^ v1.rotate_left(3), a0.wrapping_mul(3).wrapping_add(a1))
    }
}
pub type Buf = ([u8; 12], usize);
#[derive(Copy, Clone)]
pub struct In<'a> {
    pub a: &'a [u8],
    pub b: &'a [u8],
    pub nested: &'a [[u8; 2]],
    pub lo: u8,
    pub hi: u8,
    pub c: u8,
    pub d: u8,
    pub m: u8,
    pub x: u8,
    pub n: usize,
    pub n2: usize,
}
'''

# ---- sources: (konst expr, std expr, reversed std expr, shape, dei, exact)
SOURCES = {
    "slice": ("i.a", "i.a.iter()", "i.a.iter().rev()", "R", True, True),
    "iter_copied": ("konst::slice::iter_copied(i.a)", "i.a.iter().copied()", "i.a.iter().copied().rev()", "V", True, True),
    "range": ("i.lo..i.hi", "(i.lo..i.hi)", "(i.lo..i.hi).rev()", "V", True, True),
    "range_incl": ("i.lo..=i.hi", "(i.lo..=i.hi)", "(i.lo..=i.hi).rev()", "V", True, True),
    "nested": ("i.nested", "i.nested.iter()", "i.nested.iter().rev()", "A", True, True),
}

PRED = "(e.val() & i.m) != 0"


class Chain:
    def __init__(self, src):
        self.src = src
        k, s, sr, shape, dei, exact = SOURCES[src]
        self.k = [k]            # konst macro arguments
        self.s = s              # std chain text
        self.model = None       # std chain with the sources reversed (built lazily)
        self.parts = []         # adapter descriptors for the model oracle
        self.shape, self.dei, self.exact = shape, dei, exact
        self.reversed = False
        self.len_dep_before_rev = False
        self.has_len_dep = False
        self.enum_before_rev = False
        self.has_enum = False
        self.names = [src]

    def copy(self):
        c = Chain.__new__(Chain)
        c.__dict__ = {k: (list(v) if isinstance(v, list) else v) for k, v in self.__dict__.items()}
        return c


def adapters_for(ch):
    """yield (name, new chain) for every adapter applicable to ch"""
    out = []

    def mk(name, ktxt, stxt, shape=None, dei=None, exact=None, part=None, **flags):
        c = ch.copy()
        c.k.append(ktxt)
        c.s += stxt
        c.parts.append(part or (name, stxt, None))
        c.names.append(name)
        if shape is not None:
            c.shape = shape
        if dei is not None:
            c.dei = dei
        if exact is not None:
            c.exact = exact
        for f, v in flags.items():
            setattr(c, f, v)
        out.append((name, c))

    sh = ch.shape
    if sh == "A":
        mk("flatten", "flatten()", ".flatten()", shape="R", exact=False,
           part=("flatten", ".flatten()", ".flat_map(|x| x.iter().rev())"))
        return out
    if sh == "R":
        mk("copied", "copied()", ".copied()", shape="V")
    mk("enumerate", "enumerate()", ".enumerate()", shape="P(%s)" % sh, dei=ch.dei and ch.exact, has_enum=True)
    mk("filter", "filter(|e| %s)" % PRED, ".filter(|e| %s)" % PRED, exact=False)
    mk("filter_map", "filter_map(|e| if %s { Some(e.val() ^ i.x) } else { None })" % PRED,
       ".filter_map(|e| if %s { Some(e.val() ^ i.x) } else { None })" % PRED, shape="V", exact=False)
    fm = "{ let k = e.val() & 3; let w = e.val() >> 6; k..(k + if w > 2 { 2 } else { w }) }"
    mk("flat_map", "flat_map(|e| %s)" % fm, ".flat_map(|e| %s)" % fm, shape="V", exact=False,
       part=("flat_map", ".flat_map(|e| %s)" % fm, ".flat_map(|e| (%s).rev())" % fm))
    mk("map", "map(|e| e.val().rotate_left(1) ^ i.x)", ".map(|e| e.val().rotate_left(1) ^ i.x)", shape="V")
    if ch.dei and not ch.reversed:
        c_flags = dict(reversed=True, len_dep_before_rev=ch.has_len_dep, enum_before_rev=ch.has_enum)
        mk("rev", "rev()", ".rev()", part=("rev", "", None), **c_flags)
    mk("skip", "skip(i.n)", ".skip(i.n)", dei=ch.dei and ch.exact, has_len_dep=True)
    mk("take", "take(i.n2)", ".take(i.n2)", dei=ch.dei and ch.exact, has_len_dep=True)
    mk("skip_while", "skip_while(|e| %s)" % PRED, ".skip_while(|e| %s)" % PRED, dei=False, exact=False)
    mk("take_while", "take_while(|e| %s)" % PRED, ".take_while(|e| %s)" % PRED, dei=False, exact=False)
    # zip partners
    mk("zip_slice", "zip(i.b)", ".zip(i.b.iter())", shape="Z(%s,R)" % sh, dei=ch.dei and ch.exact, has_len_dep=True,
       part=("zip", ".zip(i.b.iter())", ".zip(i.b.iter().rev())"))
    mk("zip_range", "zip(i.c..i.d)", ".zip(i.c..i.d)", shape="Z(%s,V)" % sh, dei=ch.dei and ch.exact, has_len_dep=True,
       part=("zip", ".zip(i.c..i.d)", ".zip((i.c..i.d).rev())"))
    if not ch.reversed:
        mk("zip_from", "zip(i.c..)", ".zip(i.c..)", shape="Z(%s,V)" % sh, dei=False, exact=False,
           part=("zip", ".zip(i.c..)", None))
    return out


def model_chain(ch, rconsumer):
    """std chain with every iterator introduced before the reversing method reversed (konst's
    documented model); None if the chain has no reversing method."""
    if not ch.reversed and not rconsumer:
        return None
    k, s, sr, shape, dei, exact = SOURCES[ch.src]
    out = sr
    seen_rev = False
    for (name, fwd, rev_txt) in ch.parts:
        if name == "rev":
            seen_rev = True
            continue
        if not seen_rev and rev_txt is not None:
            out += rev_txt
        elif not seen_rev and name == "zip" and rev_txt is None:
            return "UNSUPPORTED"
        else:
            out += fwd
    return out


FOLD = "|acc: u8, e| acc.rotate_left(3) ^ e.val()"
CONSUMERS = {
    # name: (konst consumer text, std method text, result type, needs_dei, needs_exact, reversing, model std text)
    "all": ("all(|e| %s)" % PRED, ".all(|e| %s)" % PRED, "bool", False, False, False, None),
    "any": ("any(|e| %s)" % PRED, ".any(|e| %s)" % PRED, "bool", False, False, False, None),
    "count": ("count()", ".count()", "usize", False, False, False, None),
    "find": ("find(|e| %s)" % PRED, ".find(|e| %s).map(|e| e.obs())" % PRED, "Option<(u8, usize)>", False, False, False, None),
    "find_map": ("find_map(|e| if %s { Some(e.val() ^ i.x) } else { None })" % PRED,
                 ".find_map(|e| if %s { Some(e.val() ^ i.x) } else { None })" % PRED, "Option<u8>", False, False, False, None),
    "rfind": ("rfind(|e| %s)" % PRED, ".rfind(|e| %s).map(|e| e.obs())" % PRED, "Option<(u8, usize)>", True, False, True,
              ".find(|e| %s).map(|e| e.obs())" % PRED),
    "fold": ("fold(0u8, %s)" % FOLD, ".fold(0u8, %s)" % FOLD, "u8", False, False, False, None),
    "rfold": ("rfold(0u8, %s)" % FOLD, ".rfold(0u8, %s)" % FOLD, "u8", True, False, True, ".fold(0u8, %s)" % FOLD),
    "next": ("next()", ".next().map(|e| e.obs())", "Option<(u8, usize)>", False, False, False, None),
    "nth": ("nth(i.n)", ".nth(i.n).map(|e| e.obs())", "Option<(u8, usize)>", False, False, False, None),
    "position": ("position(|e| %s)" % PRED, ".position(|e| %s)" % PRED, "Option<usize>", False, False, False, None),
    "rposition": ("rposition(|e| %s)" % PRED, None, "Option<usize>", True, True, True, ".position(|e| %s)" % PRED),
    "for_each": (None, None, "Buf", False, False, False, None),
}


def finding_open():
    """is the C10 finding still listed as known? (fixed => the region is checked against std again)"""
    import json
    try:
        d = json.load(open(os.path.join(os.path.dirname(os.path.abspath(__file__)), "..", "known_findings.json")))
        return any(f.get("property") == "C10" and f.get("key") == "len_dependent_adapter_before_rev" and f.get("status") == "known"
                   for f in d.get("findings", []))
    except Exception:
        return False


FINDING_OPEN = finding_open()


def program(fam, name, ch, cname, force_std_oracle=False, witness=None):
    kc, sc, rty, need_dei, need_exact, reversing, model_c = CONSUMERS[cname]
    if reversing and ch.reversed:
        return None
    if need_dei and not ch.dei:
        return None
    if need_exact and not ch.exact:
        return None
    kargs = ", ".join(ch.k)
    in_region = (ch.len_dep_before_rev) or (reversing and ch.has_len_dep)
    needs_model = (in_region and FINDING_OPEN) or ch.enum_before_rev or (reversing and ch.has_enum) or cname == "rposition"
    if force_std_oracle:
        needs_model = False
    if needs_model:
        mchain = model_chain(ch, reversing)
        if mchain in (None, "UNSUPPORTED"):
            return None
        std_chain = mchain
        std_cons = model_c if reversing else sc
    else:
        std_chain = ch.s
        std_cons = sc
    if cname == "for_each":
        k_body = ("    let mut buf: Buf = ([0; 12], 0);\n    konst::iter::for_each!{e in %s =>\n        buf.0[buf.1] = e.val();\n        buf.1 += 1;\n    }\n    buf\n" % kargs)
        s_body = ("    let mut buf: Buf = ([0; 12], 0);\n    for e in %s {\n        buf.0[buf.1] = e.val();\n        buf.1 += 1;\n    }\n    buf\n" % std_chain)
    else:
        obs = ".map(|e| e.obs())" if rty == "Option<(u8, usize)>" else ""
        k_body = "    konst::iter::eval!(%s, %s)%s\n" % (kargs, kc, obs)
        s_body = "    %s%s\n" % (std_chain, std_cons)
    plain = ("use super::support::*;\n\npub fn k_run(i: In<'_>) -> %s {\n%s}\n\npub fn s_run(i: In<'_>) -> %s {\n%s}\n" % (rty, k_body, rty, s_body))
    cmp = "assert!(k.1 == s.1); let mut j = 0; while j < s.1 { assert!(k.0[j] == s.0[j]); j += 1; }" if cname == "for_each" else "assert!(k == s);"
    oracle = "std chain with the sources reversed (documented model)" if needs_model else "identical std chain"
    harness = """
    fn check() {
        let a: [u8; 4] = kani::any();
        let b: [u8; 4] = kani::any();
        let nested: [[u8; 2]; 2] = kani::any();
        let (la, lb, ln): (usize, usize, usize) = kani::any();
        kani::assume(la <= %d && lb <= 4 && ln <= 2);
        let (lo, hi, c, d): (u8, u8, u8, u8) = kani::any();
        kani::assume(lo >= hi || hi - lo <= 3);
        kani::assume(lo < 250);
        kani::assume(c <= 100 && (c >= d || d - c <= 4));
        let (n, n2): (usize, usize) = kani::any();
        kani::assume(n <= 5 && n2 <= 5);
        let i = In { a: &a[..la], b: &b[..lb], nested: &nested[..ln], lo, hi, c, d, m: kani::any(), x: kani::any(), n, n2 };
        let k = k_run(i);
        let s = s_run(i);
        %s
        must_reach!(la == %d && lb == 3 && ln == 2 && hi > lo && hi - lo == 3, "full-size inputs");
        must_reach!(la == 0 || ln == 0 || lo >= hi, "an empty source");
    }
    tiers1! { %s: unwind(12, 12), check(), check(),
        calls("konst::iter::%s!(%s)"),
        bounds("slices <=4 (nested <=2x2), ranges <=4 items, take/skip/nth arguments 0..=5, every closure of the mask/xor families; oracle: %s", "same")%s }
""" % (3 if ("flat_map" in ch.names or "flatten" in ch.names) else 4, cmp, 3 if ("flat_map" in ch.names or "flatten" in ch.names) else 4, name, "for_each" if cname == "for_each" else "eval", (", ".join(ch.names) + ", " + cname).replace('"', "'"), oracle,
       (',\n        kf_witness("%s")' % witness) if witness else "")
    desc = "%s | %s | oracle: %s%s" % (", ".join(ch.names), cname, oracle, " | IN KNOWN-FINDING REGION" if in_region else "")
    fam.add(name, desc, plain, harness)
    return in_region


def main():
    args = parse_args()
    fam = Family(args, "C10")
    rng = fam.rng
    fam.add("support", "shared helper traits", SUPPORT, "")
    roots = [Chain(s) for s in SOURCES]
    level1 = []
    for r in roots:
        for nm, c in adapters_for(r):
            level1.append(c)
    level2 = []
    for c1 in level1:
        for nm, c in adapters_for(c1):
            level2.append(c)
    level3 = []
    if args.tier == "thorough":
        for c2 in rng.sample(level2, min(40, len(level2))):
            for nm, c in adapters_for(c2):
                level3.append(c)
    chosen = [r for r in roots if r.shape != "A" and (args.tier != "quick" or r.src in ("slice", "range_incl"))]
    # one-adapter prefixes: all of them on the slice source, `rev` on the others
    for c in level1:
        if c.src in ("slice", "nested") or c.names[1] == "rev":
            chosen.append(c)
    if args.tier == "quick":
        light2 = [c for c in level2 if not any(a in c.names for a in ("flat_map", "flatten"))]
        chosen += rng.sample(light2, 8)   # flat_map/flatten two-adapter chains are too costly to sample blindly in the quick tier
    else:
        # thorough: every adapter on the slice, exclusive-range and nested sources with EVERY consumer,
        # plus seeded samples of two- and three-adapter chains (the full cross product of two-adapter
        # chains is ~15 000 programs and out of reach)
        chosen += [c for c in level1 if c.src in ("slice", "range", "nested")]
        light2 = [c for c in level2 if not any(a in c.names for a in ("flat_map", "flatten"))]
        chosen += rng.sample(light2, 60) + rng.sample(level2, 10) + rng.sample(level3, min(20, len(level3)))
    # always include the shapes named by the finding and the documented exceptions
    must = [("slice", "take", "rev"), ("slice", "skip", "rev"), ("slice", "zip_slice", "rev"), ("slice", "enumerate", "rev"),
            ("range", "take", "rev"), ("iter_copied", "skip", "rev"), ("slice", "rev", "enumerate"), ("slice", "rev", "take"),
            ("slice", "filter", "rev"), ("slice", "flat_map", "rev"), ("nested", "flatten", "rev")]
    for c in level2:
        if tuple(c.names) in must:
            chosen.append(c)
    # three-adapter chains in which the iteration direction has to flow through a state-carrying
    # adapter into a direction-sensitive one (always included)
    must3 = [("slice", "rev", "enumerate", "zip_slice"), ("slice", "rev", "skip", "zip_range"), ("slice", "rev", "take", "flat_map"),
             ("slice", "rev", "skip_while", "flat_map"), ("nested", "flatten", "rev", "zip_slice"),
             ("iter_copied", "rev", "enumerate", "flat_map"), ("range", "rev", "skip", "zip_slice")]
    for c2 in level2:
        if any(tuple(c2.names) == m[:3] for m in must3):
            for nm, c3 in adapters_for(c2):
                if tuple(c3.names) in must3:
                    chosen.append(c3)
    seen = set()
    n = 0
    region = 0
    cons_all = list(CONSUMERS)
    for ch in chosen:
        key = tuple(ch.names)
        if key in seen or ch.shape == "A":
            continue
        seen.add(key)
        if len(ch.names) >= 4:
            cons = ["fold", "find"]
        elif args.tier == "thorough" and len(ch.names) == 3:
            cons = [cons_all[(n + j * 4) % len(cons_all)] for j in range(3)]
        elif args.tier == "quick" and len(ch.names) >= 3:
            cons = [cons_all[(n + j * 5) % len(cons_all)] for j in range(2)] + (["for_each"] if tuple(ch.names) in must else [])
        elif args.tier == "quick" and len(ch.names) == 2:
            # every adapter with a seeded rotating subset of the consumers (all of them in the thorough tier)
            k0 = rng.randrange(len(cons_all))
            cons = [cons_all[(k0 + j * 3) % len(cons_all)] for j in range(4)] + ["for_each"]
        else:
            cons = cons_all
        for cname in dict.fromkeys(cons):
            if cname == "for_each" and ("flat_map" in ch.names or "flatten" in ch.names) and len(ch.names) >= 3:
                cname = "fold"   # for_each into a buffer after flat_map/flatten is too heavy for the quick tier; fold observes the same order
            name = "p%04d" % n
            r = program(fam, name, ch, cname)
            if r is None:
                continue
            region += 1 if r else 0
            n += 1
    # witness for the known finding: the std oracle on a chain of the region (expected to fail while open)
    for c in level2:
        if tuple(c.names) == ("slice", "skip", "rev"):
            program(fam, "kf_skip_rev", c, "fold", force_std_oracle=True, witness="len_dependent_adapter_before_rev")
    fam.finish({"chains": len(seen), "in_known_finding_region": region, "finding_open": FINDING_OPEN})


if __name__ == "__main__":
    main()
