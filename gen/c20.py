#!/usr/bin/env python3
"""C20 program family: the const glue of str_concat!/str_join!/string::from_iter!/slice_concat! on
constant argument lists (the macros only accept constants). The expected string is computed HERE
(Python concatenation/join), i.e. independently of konst and of rustc's const evaluator; each program
is first compiled by rustc (a const-evaluation failure = rejected program = violation) and then the
produced constant is compared byte for byte under Kani (concrete: smoke-level, not solver coverage)."""
import sys, os
sys.path.insert(0, os.path.dirname(__file__))
from common import parse_args, Family

PIECES = ["", "a", "ab", "é", "€", "\U0001F600", "\n", "zé"]
SEPS_S = ["", ",", ", ", "é", "--", "€"]
CHARS = ["x", "é", "€", "\U0001F600", "\n"]


def lit(s):
    out = '"'
    for ch in s:
        o = ord(ch)
        if ch == '"' or ch == "\\":
            out += "\\" + ch
        elif 32 <= o < 127:
            out += ch
        else:
            out += "\\u{%x}" % o
    return out + '"'


def clit(c):
    return "'\\u{%x}'" % ord(c)


def bytes_lit(s):
    return "&[" + ", ".join(str(b) for b in s.encode()) + "]"


def main():
    args = parse_args()
    fam = Family(args, "C20")
    rng = fam.rng
    n_each = 4 if args.tier == "quick" else 12
    progs = []
    fixed = [
        ("concat", []), ("concat", [""]), ("concat", ["", ""]), ("concat", ["a", "", "é", "\U0001F600"]),
        ("concat_chars", []), ("concat_chars", ["x", "€", "é"]),
        ("join_s", (", ", [])), ("join_s", (",", [""])), ("join_s", (",", ["", ""])), ("join_s", ("--", ["a", "", "b"])), ("join_s", ("", ["a", "b"])),
        ("join_c", ("é", ["a", "b"])), ("join_c", ("\U0001F600", ["", "", ""])), ("join_c", ("x", ["only"])),
        ("from_iter_s", ["ab", "", "é"]), ("from_iter_c", ["x", "€"]), ("from_iter_s", []),
        ("slice", [[1, 2], [], [3, 4, 5]]), ("slice", [[], []]), ("slice", []),
    ]
    for kind, arg in fixed:
        progs.append((kind, arg))
    for _ in range(n_each):
        progs.append(("concat", [rng.choice(PIECES) for _ in range(rng.randint(0, 5))]))
        progs.append(("concat_chars", [rng.choice(CHARS) for _ in range(rng.randint(0, 5))]))
        progs.append(("join_s", (rng.choice(SEPS_S), [rng.choice(PIECES) for _ in range(rng.randint(0, 5))])))
        progs.append(("join_c", (rng.choice(CHARS), [rng.choice(PIECES) for _ in range(rng.randint(0, 5))])))
        progs.append(("from_iter_s", [rng.choice(PIECES) for _ in range(rng.randint(0, 4))]))
        progs.append(("slice", [[rng.randint(0, 255) for _ in range(rng.randint(0, 3))] for _ in range(rng.randint(0, 4))]))
    for i, (kind, arg) in enumerate(progs):
        name = "g%03d" % i
        if kind == "concat":
            expr = "konst::string::str_concat!(&[%s])" % ", ".join(lit(p) for p in arg)
            want = "".join(arg)
        elif kind == "concat_chars":
            expr = "konst::string::str_concat!(&[%s])" % ", ".join(clit(c) for c in arg)
            want = "".join(arg)
        elif kind == "join_s":
            sep, ps = arg
            expr = "konst::string::str_join!(%s, &[%s])" % (lit(sep), ", ".join(lit(p) for p in ps))
            want = sep.join(ps)
        elif kind == "join_c":
            sep, ps = arg
            expr = "konst::string::str_join!(%s, &[%s])" % (clit(sep), ", ".join(lit(p) for p in ps))
            want = sep.join(ps)
        elif kind == "from_iter_s":
            expr = "konst::string::from_iter!(&[%s] as &[&str])" % ", ".join(lit(p) for p in arg)
            want = "".join(arg)
        elif kind == "from_iter_c":
            expr = "konst::string::from_iter!(&[%s] as &[char])" % ", ".join(clit(c) for c in arg)
            want = "".join(arg)
        if kind == "slice":
            flat = [x for part in arg for x in part]
            expr = "konst::slice::slice_concat!(u8, &[%s])" % ", ".join("&[%s]" % ", ".join(str(x) for x in part) for part in arg)
            plain = "pub const GOT: [u8; %d] = %s;\npub const WANT: &[u8] = &[%s];\npub fn got() -> &'static [u8] { &GOT }\n" % (len(flat), expr, ", ".join(str(x) for x in flat))
        else:
            plain = "pub const GOT: &str = %s;\npub const WANT: &[u8] = %s;\npub fn got() -> &'static [u8] { GOT.as_bytes() }\n" % (expr, bytes_lit(want))
        harness = """
    fn check() {
        let g = got();
        assert!(g.len() == WANT.len());
        let mut i = 0;
        while i < WANT.len() {
            assert!(g[i] == WANT[i]);
            i += 1;
        }
        must_reach!("constant compared byte for byte");
    }
    tiers1! { %s: unwind(40, 40), check(), check(),
        calls("%s"), bounds("one constant argument list (concrete)", "same") }
""" % (name, expr.split("!")[0].replace("konst::", "konst::") + "!")
        fam.add(name, "%s: %s" % (kind, expr[:120]), plain, harness)
    fam.finish()


if __name__ == "__main__":
    main()
