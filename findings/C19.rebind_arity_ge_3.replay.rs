// verif-replay property=C19 harness=c19g::p046 features=c19 kind=compile
// failed: rustc rejects a program the property says is accepted: unexpected token: `:` (before commit ba57d2d)
// generated program p046: if_ok_code arity 3 pattern `(_, v1, let b2)`
#![allow(unused, clippy::all)]
use konst::{rebind_if_ok, try_rebind};

pub fn run(input: Result<(u8, u8, u8), u8>, init: [u8; 3]) -> ([u8; 3], [u8; 3], bool) {
    let mut v0: u8 = init[0];
    let mut v1: u8 = init[1];
    let mut v2: u8 = init[2];
    let mut lets = init;
    let mut took = false;
    rebind_if_ok!{(_, v1, let b2) = input =>
        took = true;
        lets[2] = b2;
    }
    let places = [v0, v1, v2];
    (places, lets, took)
}

#[cfg(kani)]
pub mod h {
    use super::*;
    use crate::util::*;

    fn check() {
        let input: Result<(u8, u8, u8), u8> = kani::any();
        let init: [u8; 3] = kani::any();
        let (places, lets, took) = run(input, init);
        match input {
            Ok(x) => {
                assert!(took);
                assert!(places[0] == init[0]);
                assert!(lets[0] == init[0]);
                assert!(places[1] == x.1);
                assert!(lets[1] == init[1]);
                assert!(places[2] == init[2]);
                assert!(lets[2] == x.2);
            }
            Err(_) => {
                assert!(!took);
                assert!(places[0] == init[0] && lets[0] == init[0]);
                assert!(places[1] == init[1] && lets[1] == init[1]);
                assert!(places[2] == init[2] && lets[2] == init[2]);
            }
        }
        must_reach!(input.is_ok(), "Ok payload");
        must_reach!(input.is_err(), "Err payload");
    }
    tiers! { p046: unwind(8, 8), check(), check(),
        calls("konst::rebind_if_ok!(.. => code)"), bounds("every Ok/Err payload (u8 components), every initial value of the places", "same"), exhaustive }
}
