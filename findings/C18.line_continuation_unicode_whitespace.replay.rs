// verif-replay property=C18 harness=c18g::a35::h::a35::q features=c18 kind=native
// failed: assertion failed: b == 255 @ src/gen/c18/a35.rs:39:17 in function c18g::a35::h::check
/// Test generated for harness `c18g::a35::h::a35::q` 
///
/// Check for `assertion`: "assertion failed: b == 255"

#[test]
fn kani_concrete_playback_q_17979764446310340009() {
    let concrete_vals: Vec<Vec<u8>> = vec![
        // 98
        vec![98],
        // 97
        vec![97],
        // 98
        vec![98],
        // 3ul
        vec![3, 0, 0, 0, 0, 0, 0, 0],
        // 786421ul
        vec![245, 255, 11, 0, 0, 0, 0, 0],
    ];
    kani::concrete_playback_run(concrete_vals, q);
}
