// verif-replay property=C05 harness=c05::bytes_trim_ws::q features=c05 kind=native
// failed: assertion failed: same(ks::bytes_trim(hay), hay.trim_ascii()) @ src/c05.rs:85:5 in function c05::bytes_trim_ws::<6>
/// Test generated for harness `c05::bytes_trim_ws::q` 
///
/// Check for `assertion`: "assertion failed: same(ks::bytes_trim(hay), hay.trim_ascii())"

#[test]
fn kani_concrete_playback_q_6992889087515343880() {
    let concrete_vals: Vec<Vec<u8>> = vec![
        // 12
        vec![12],
        // 96
        vec![96],
        // 13
        vec![13],
        // 9
        vec![9],
        // 9
        vec![9],
        // 10
        vec![10],
        // 1ul
        vec![1, 0, 0, 0, 0, 0, 0, 0],
    ];
    kani::concrete_playback_run(concrete_vals, q);
}
