// verif-replay property=C04 harness=c04::bytes_find_skip_keep::q features=c04 kind=native
// failed: called `Option::unwrap()` on a `None` value @ ../../home/runner/.rustup/toolchains/nightly-2026-08-21-x86_64-unknown-linux-gnu/lib/rustlib/src/rust/library/core/src/option.rs:2248:5 in function std::option::unwrap_failed
/// Test generated for harness `c04::bytes_find_skip_keep::q` 
///
/// Check for `assertion`: "called `Option::unwrap()` on a `None` value"

#[test]
fn kani_concrete_playback_q_16858257718212926604() {
    let concrete_vals: Vec<Vec<u8>> = vec![
        // 161
        vec![161],
        // 161
        vec![161],
        // 161
        vec![161],
        // 177
        vec![177],
        // 49
        vec![49],
        // 5ul
        vec![5, 0, 0, 0, 0, 0, 0, 0],
        // 161
        vec![161],
        // 161
        vec![161],
        // 177
        vec![177],
        // 3ul
        vec![3, 0, 0, 0, 0, 0, 0, 0],
    ];
    kani::concrete_playback_run(concrete_vals, q);
}
