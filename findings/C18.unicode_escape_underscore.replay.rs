// verif-replay property=C18 harness=c18g::a34 features=c18 kind=compile
// failed: rustc rejects a program the property says is accepted: Error: Invalid unicode escape: {1_F600    After: "\u
// generated program a34: atom \u{..} with underscore (strip_prefix): parser_method!{parser, strip_prefix;         "\u{1_F600}" => 0,         "zz" => 1,         _ => 255 
#![allow(unused, clippy::all)]
use konst::{parser_method, Parser};

pub const ALTS: &[&[&str]] = &[&["\u{1_F600}"], &["zz"]];
pub fn run(mut parser: Parser<'_>) -> (u8, Parser<'_>) {
    let b: u8 = parser_method!{parser, strip_prefix;
        "\u{1_F600}" => 0,
        "zz" => 1,
        _ => 255
    };
    (b, parser)
}

#[cfg(kani)]
pub mod h {
    use super::*;
    use crate::util::*;

    use crate::c18::*;
    fn check() {
        sym_str!(s, 3);
        let base: usize = kani::any();
        kani::assume(base <= 1 << 20);
        let w = s.as_bytes();
        let p = Parser::with_start_offset(s, base);
        let (b, q) = run(p);
        let r = q.remainder();
        match spec_strip_prefix(w, ALTS) {
            Some((wb, n)) => {
                assert!(b as usize == wb);
                assert!(r.len() == w.len() - n && (r.is_empty() || r.as_ptr() == s[n..].as_ptr()));
                assert!(q.start_offset() == base + n && q.end_offset() == base + w.len());
            }
            None => {
                // default branch: the parser is unchanged
                assert!(b == 255);
                assert!(r.len() == w.len() && (r.is_empty() || r.as_ptr() == s.as_ptr()));
                assert!(q.start_offset() == base && q.end_offset() == base + w.len());
            }
        }
        must_reach!(r.len() < w.len(), "something was consumed");
        must_reach!(r.len() == w.len() && w.len() == 3, "nothing consumed from a full-length input");
    }
    tiers! { a34: unwind(7, 7), check(), check(),
        calls("konst::parser_method!(.., strip_prefix; ..)", "konst_proc_macros::__priv_bstr_start/__priv_bstr_end (output only)"),
        bounds("every valid UTF-8 input <=3 bytes, base <= 2^20; literals: '\\u{1_F600}' / 'zz'", "same") }
}
