// verif-replay property=C16 harness=c16::bytes_alias::q features=c16,kf_c16_rangeinclusive_exhausted kind=native
// failed: assertion failed: konst::slice::cmp_bytes(a, b) == lex_cmp(a, b) @ src/c16.rs:181:5 in function c16::bytes_alias::<3>
/// Test generated for harness `c16::bytes_alias::q` 
///
/// Check for `assertion`: "assertion failed: konst::slice::cmp_bytes(a, b) == lex_cmp(a, b)"

#[test]
fn kani_concrete_playback_q_17626290318270748747() {
    let concrete_vals: Vec<Vec<u8>> = vec![
        // 1
        vec![1],
        // 1
        vec![1],
        // 2
        vec![2],
        // 2ul
        vec![2, 0, 0, 0, 0, 0, 0, 0],
        // 65
        vec![65],
        // 1
        vec![1],
        // 3
        vec![3],
        // 1ul
        vec![1, 0, 0, 0, 0, 0, 0, 0],
    ];
    kani::concrete_playback_run(concrete_vals, q);
}
