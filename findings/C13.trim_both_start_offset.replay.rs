// verif-replay property=C13 harness=c13::trim::q features=c13 kind=native
// failed: assertion failed: inv(s, base, q) @ src/c13.rs:64:1 in function c13::op_trim::<4, 2>
/// Test generated for harness `c13::trim::q` 
///
/// Check for `assertion`: "assertion failed: inv(s, base, q)"

#[test]
fn kani_concrete_playback_q_15165687228756865164() {
    let concrete_vals: Vec<Vec<u8>> = vec![
        // 32
        vec![32],
        // 13
        vec![13],
        // 96
        vec![96],
        // 32
        vec![32],
        // 4ul
        vec![4, 0, 0, 0, 0, 0, 0, 0],
        // 1ul
        vec![1, 0, 0, 0, 0, 0, 0, 0],
        // 4ul
        vec![4, 0, 0, 0, 0, 0, 0, 0],
        // 766311933ul
        vec![253, 253, 172, 45, 0, 0, 0, 0],
        // 0
        vec![0],
        // 127
        vec![127],
        // 127
        vec![127],
        // 2ul
        vec![2, 0, 0, 0, 0, 0, 0, 0],
        // 65535
        vec![255, 255, 0, 0],
        // 0
        vec![0],
    ];
    kani::concrete_playback_run(concrete_vals, q);
}
