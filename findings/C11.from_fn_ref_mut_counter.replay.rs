// verif-replay property=C11 harness=c11::n2::from_fn_binding_modes::q features=c11 kind=native
// failed: index out of bounds: the length is less than or equal to the given index @ /repo/konst_kernel/src/macros/array_macros.rs:33:13 in function c11::from_fn_binding_modes::<2>
// failed: "from_fn!(|ref mut i| ..) slot differs from core::array::from_fn" @ src/c11.rs:77:9 in function c11::from_fn_binding_modes::<2>
/// Test generated for harness `c11::n2::from_fn_binding_modes::q` 
///
/// Check for `assertion`: "index out of bounds: the length is less than or equal to the given index"

#[test]
fn kani_concrete_playback_q_8107667442025861678() {
    let concrete_vals: Vec<Vec<u8>> = vec![
        // 2ul
        vec![2, 0, 0, 0, 0, 0, 0, 0],
    ];
    kani::concrete_playback_run(concrete_vals, q);
}
