#!/usr/bin/env python3
"""print per-harness status/time from a terse kani log: tools/times.py .build/c12.quick.log"""
import sys, os, importlib.machinery, importlib.util
root = os.path.dirname(os.path.dirname(os.path.abspath(__file__)))
loader = importlib.machinery.SourceFileLoader("chk", os.path.join(root, "check"))
spec = importlib.util.spec_from_loader("chk", loader)
chk = importlib.util.module_from_spec(spec)
loader.exec_module(chk)
r = chk.parse_terse(open(sys.argv[1]).read())
for h, v in sorted(r.items(), key=lambda kv: kv[1]["time"] or 9999):
    print("%-55s %-10s %8s timeout=%s covers=%d/%d failed=%s" % (h, v["status"], v["time"], v["timeout"], v["covers_sat"], v["covers_total"],
          [f["desc"][:60] for f in v["failed_checks"]][:2]))
