#!/usr/bin/env python3
"""markdown table of the seeded changes and their recorded runs (seeded/*/meta.json)"""
import json, os
ROOT = os.path.dirname(os.path.dirname(os.path.abspath(__file__)))
rows = []
for d in sorted(os.listdir(os.path.join(ROOT, "seeded"))):
    mp = os.path.join(ROOT, "seeded", d, "meta.json")
    if not os.path.exists(mp):
        continue
    m = json.load(open(mp))
    rr = m.get("recorded_run", {})
    runs = rr.get("runs", {})
    res = ", ".join("%s: exit %s%s" % (k, v["exit"], " (%s)" % v["violation_lines"][0].split("replay=")[0].strip() if v.get("violation_lines") else "") for k, v in runs.items()) or "not run yet"
    verdict = "detected" if rr.get("detected") else ("expected miss" if m.get("expected_detection") is False else ("MISSED" if runs else "-"))
    what = (m.get("what") or "").replace("|", "/").replace("\n", " ")
    rows.append("| %s | %s | %s | %s |" % (d, what[:170], verdict, res))
print("| seed | change (author's words) | verdict | recorded run |\n|---|---|---|---|")
print("\n".join(rows))
