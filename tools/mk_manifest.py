#!/usr/bin/env python3
"""Writes /verif/MANIFEST.json from the table below (kept here so the manifest stays valid)."""
import json, os
ROOT = os.path.dirname(os.path.dirname(os.path.abspath(__file__)))

LEVEL_NOTE = ("Bounded: holds for every input within the bounds listed in evidence (coverage.samples[*].bounds), nothing is "
              "claimed outside them. Trusted base: Kani 0.68 / CBMC 6.11 / cadical, rustc's MIR for /repo's working tree, the "
              "harness oracles (std where cheap; otherwise the naive references in harness/src/util.rs, cross-checked against "
              "std natively), and the stubs listed in evidence (panic-message formatting only).")

# id -> (technique, level text, design ref)
BMC = "bounded model checking (Kani/CBMC + SAT) of the compiled konst code against "
CLAIMED = {
    "C01": (BMC + "Kani's built-in memory-safety / overflow / assertion checks on every unsafe-backed public function with fully symbolic arguments, plus explicit 'result inside the argument, valid UTF-8 on char boundaries' assertions",
            "One harness per unsafe-backed function group (slice getters/splitters and _mut twins for u8, u32, [u8;3], (); array "
            "conversions and chunks; string slicing, strip/trim/find/split_once with str and char patterns; all string and slice iterator "
            "items/remainders; char encoding for every char / u32; byte-pattern functions; CStr; MaybeUninit/ManuallyDrop/NonNull/option "
            "wrappers). CBMC's memory model flags out-of-range offsets and invalid from_raw_parts ranges that run 'fine' natively. Not "
            "modelled: aliasing models, rustc's const-evaluator-only rules; uninitialised reads are caught as nondeterministic values.",
            "DESIGN.md#c01"),
    "C10": (BMC + "the identical std Iterator chain, over a generated typed family of DSL chains (source + adapters + consumer); documented exceptions encoded by reversing the sources",
            "Programs are enumerated by a typed generator (every adapter x a seeded rotating subset of consumers in the quick tier, the "
            "full cross product and sampled 2/3-adapter chains in the thorough tier); per program the solver decides every input slice "
            "<=4, range <=4, take/skip/nth argument and every closure of the mask/xor families, comparing values and addresses with std. "
            "collect_const! only as constant smoke tests. Open finding: take/skip/zip before a reversing method.", "DESIGN.md#c10"),
    "C02": (BMC + "std slice indexing (slice::get, split_at_checked, <&[T;N]>::try_from, as_chunks), results compared by address and length",
            "For u8, u32, [u8;3] slices up to the stated length and (), every length up to usize::MAX, with every usize index/index pair, "
            "the solver shows the fallible getters equal slice.get(..), the clamping variants return std's sub-slice or the documented "
            "clamped result, the _mut twins address the same elements (write-through checked), and try_into_array/as_chunks/as_rchunks "
            "agree with std; Kani's pointer checks cover the unsafe blocks on the same paths.", "DESIGN.md#c02"),
    "C03": (BMC + "str::get / str::is_char_boundary, plus should_panic twins for the in-range non-boundary indices",
            "For every valid UTF-8 string up to the stated byte length (all 1-4 byte sequences that fit) and every usize index pair: "
            "get_from/get_up_to/get_range equal str::get, is_char_boundary equals std, the clamping variants equal std's sub-string "
            "with indices clamped to len, and they panic (return unreachable) exactly for an in-range index inside a character.", "DESIGN.md#c03"),
    "C05": (BMC + "std starts_with/ends_with/strip_prefix/strip_suffix/trim_ascii* and a naive maximal-run reference for pattern trimming",
            "For every input up to the stated length over all 256 byte values and every pattern kind (str, char, [u8], [u8;N]; including "
            "empty and longer than the input) the solver shows prefix/suffix tests and stripping equal std, whitespace trimming equals "
            "trim_ascii*, and pattern trimming removes exactly the maximal run of whole repetitions.", "DESIGN.md#c05"),
    "C07": (BMC + "std's Chars/CharIndices/char::encode_utf8/char::from_u32 under every front/back interleaving",
            "encode_utf8 is compared with std for every char and from_u32 for every u32 (whole domains, exhaustive); chars/char_indices "
            "and their reversed types are stepped against std with a symbolic front/back choice per step to exhaustion for every valid "
            "UTF-8 string up to the stated length, comparing items, offsets, as_str() and produced-char validity.", "DESIGN.md#c07"),
    "C08": (BMC + "std's slice iterators (iter, copied, windows, chunks, rchunks, chunks_exact, rchunks_exact, as_chunks) stepped in lockstep under every front/back interleaving",
            "For every slice length up to the bound (u16 and zero-sized elements), every window/chunk size 1..=len+1 and every "
            "interleaving of front and back steps to exhaustion, each konst iterator and its reversed type yield the same sub-slices "
            "(address and length) as std, report the same remainder/as_slice, end at the same step and stay exhausted; copies are "
            "independent; size 0 panics at the documented assert.", "DESIGN.md#c08"),
    "C09": (BMC + "std Range/RangeInclusive/RangeFrom iterators from every (start,end) pair",
            "For each of the 13 Step types every (start,end) pair is symbolic (inverted, MIN/MAX, char pairs across the surrogate gap) and "
            "K symbolic front/back steps (stepping on after exhaustion) are compared with std, for the forward and reversed iterator "
            "types; the for_each!/eval! macro route is checked for ranges of up to 4 items; the RangeFrom step past MAX must overflow (panic in the "
            "modelled debug profile) like std, neither saturating nor returning. Bounded in the number of steps, not in the values.",
            "DESIGN.md#c09"),
    "C11": (BMC + "<[T;N]>::map / core::array::from_fn slot by slot (unwritten memory is nondeterministic under CBMC), should_panic / diverging twins for hostile closures and builder misuse",
            "For N in {0,1,2,4}, every input array and every closure of the symbolic families: map!/map_!/from_fn!/from_fn_! equal std in "
            "every slot, also when the closure parameter is written `ref mut i` / `mut i` / `ref i` and written through; with break / panic at a symbolic position the macro panics and the statement after it is unreachable; with continue "
            "it does not return within the bound; return / labelled break produce no array; ArrayBuilder under every operation sequence "
            "returns the pushed values, and build-before-full / push-when-full panic. collect_const!'s const wrapper is outside the claim.",
            "DESIGN.md#c11"),
    "C12": (BMC + "str::parse on symbolic strings (whole-string), and a longest-digit-run reference + str::parse for Parser prefix parsing",
            "Whole-string parsing of every integer type and bool is compared with str::parse for every string up to the stated length "
            "(valid UTF-8 for 8/16-bit types, ASCII for wider ones; leading '+' excluded as the property states), plus the 1000-string "
            "neighbourhoods of MIN and MAX for the 32/64/128-bit types; Parser::parse_* consumes exactly '-'? + the longest digit run, "
            "returns std's value and the rest (ptr,len,offsets), and on failure reports the start offset and consumes nothing.", "DESIGN.md#c12"),
    "C13": (BMC + "a one-step inductive invariant from an arbitrary reachable Parser state (window, base offset, split flag, direction), one harness per operation",
            "For every original string up to the stated length, every window on char boundaries, every base offset <= 2^30, both values of the "
            "one-shot split flag and every pattern argument, one step of each of the 22 Parser operations preserves: remainder == "
            "original[start-base..end-base] by address and length, offsets on char boundaries, narrowing only; a failing operation reports "
            "the start (front ops) or end (back ops) offset of the parser it was called on with the matching direction and kind. The "
            "constructors satisfy the invariant, so induction covers operation sequences of any length; the bound is on string size only.",
            "DESIGN.md#c13"),
    "C14": (BMC + "the free string functions applied to the pre-state remainder (delegation), from an arbitrary reachable Parser state; split protocols vs a naive splitter",
            "One step of each Parser operation from every window/base/flag state leaves exactly the remainder (address and length) that "
            "string::{trim*,trim_*matches,strip_*,find_skip,rfind_skip,split_once,rsplit_once,find} compute on the previous remainder, "
            "succeeds exactly when they find something, and the one-shot split flag behaves as specified (set exactly when no delimiter "
            "is left, then SplitExhausted, preserved by every other operation). Protocols to exhaustion are bounded cross-checks "
            "(quick: strings <=3 bytes, delimiter \",\"); the free functions themselves are tied to std by C04/C05.", "DESIGN.md#c14"),
    "C15": (BMC + "a drop ledger (every element carries an id; handed_out + dropped == 1 at the end of every completed path), generated destructure! pattern family",
            "ArrayConsumer / ArrayBuilder under symbolic operation sequences (N in 0,1,3,4), clone of both, by-value array::map_!, and 40 "
            "generated destructure! pattern shapes (braced/tuple structs in path and type form, tuples up to 16, arrays with rest / `..` / "
            "`_`, packed structs, nested patterns, ZST fields): every element is handed out or dropped exactly once, `_`/`..` elements are "
            "dropped at the macro, ids and payloads arrive in order and bit-for-bit. Generated programs are first compiled with rustc; "
            "panics unwind nothing under Kani, so leak-on-panic is outside the claim.", "DESIGN.md#c15"),
    "C16": (BMC + "std == / Ord::cmp on symbolic pairs (lexicographic reference for slices), should_panic twins for assertc_eq!/assertc_ne!; bool ordering: symbolic execution of the functions' MIR into z3 (mirsmt.py), counterexamples replayed natively",
            "Scalars, NonZero*, Ordering, ranges and Option of them are compared with std over their whole domains (exhaustive per pair); "
            "strings, slices of every primitive, slices of strings/byte slices over all contents up to the stated lengths (all length "
            "combinations); order axioms on triples. The ordering of bool (Kani 0.68 mis-models `<` on symbolic bool) is decided by a second "
            "engine instead: the MIR of cmp_bool and cmp_option_bool, dumped from the current tree on every run, is executed symbolically "
            "path by path into z3 and compared with Ord (whole domain, loop-free, translator validated against the native functions on "
            "every concrete input); cmp_slice_bool ordering and const_cmp!(bool) expansions stay unclaimed (bool equality is claimed for "
            "all of them). Open finding: exhausted RangeInclusive.", "DESIGN.md#c16"),
    "C06": (BMC + "a naive first/last-occurrence splitter: one step (+ the following call) from every state of each split iterator, bounded protocols to exhaustion, the empty-delimiter rule",
            "Every state of a split iterator is its not-yet-split part plus Normal/Finished, and split(&s[a..b], d) is that state; one "
            "step from every window of every string up to the bound, for str (1..=2 bytes) and char delimiters, yields the piece up to the "
            "first (last) occurrence, leaves the rest as remainder, applies the terminator / mirrored rule and finishes exactly when no "
            "delimiter is left; induction gives the whole sequence. Bounded runs to exhaustion, rev() and the empty-delimiter forms are "
            "checked in addition.", "DESIGN.md#c06"),
    "C18": (BMC + "a naive specification of the six parser_method! forms over generated literal programs; the same literal tokens used as &str are the oracle for literal decoding",
            "Generated programs (every literal atom kind once; seeded samples of 1-3 branches x 1-2 alternatives per method) are first "
            "compiled by rustc (a literal the macro rejects although rustc accepts it is a violation) and then the solver compares branch "
            "taken, remainder and offsets with the specification for every valid UTF-8 input up to 3-4 bytes. The proc macro's own "
            "execution is not symbolically executed, only its output per generated literal.", "DESIGN.md#c18"),
    "C19": (BMC + "the std Option/Result methods, `?`, core::cmp::{min,max,..}; generated rebind programs are first compiled (acceptance) then solver-checked",
            "All payloads are 8-bit and fully symbolic and closures come from symbolic xor/mask families with call counters (value arguments of "
            "unwrap_or!/ok_or! carry a counter too: evaluated exactly once), so each "
            "harness is exhaustive in the values; macro forms (closure / function path) and the rebind program family (arity 1..6 x "
            "{place, let, typed let, _} x {rebind_if_ok with/without code, try_rebind}) are enumerated (seeded sample above arity 2/3). A "
            "generated program that rustc rejects is reported as a violation with the program as replay.", "DESIGN.md#c19"),
    "C20": (BMC + "a positional concatenation reference on the length pass and the <N> fill pass of the concat/join functions; std CStr for the constructors and conversions",
            "The macros evaluate in const items, so the solver decides their two phases (konst_kernel::string::{concat_sum_lengths,"
            "concat_strs,join_sum_lengths,join_strs}, slice::{concat_sum_lengths,concat_slices}, __ElemDispatch) on symbolic pieces, chars "
            "and separators for selected total lengths N; the 5-line const glue is only smoke-tested on constants (stated). CStr: every "
            "byte slice up to the bound: constructors succeed exactly when std's do with an equal CStr; to_bytes/to_bytes_with_nul/to_str "
            "equal std.", "DESIGN.md#c20"),
    "C04": (BMC + "a naive first/last-occurrence reference, all byte values, symbolic haystack and pattern",
            "For every haystack up to the stated byte length and every pattern (str, char, [u8], [u8;N]) up to the stated length, over "
            "the full byte alphabet, the SAT solver shows find/rfind/contains/find_skip/find_keep/rfind_skip/rfind_keep/split_once/"
            "rsplit_once equal the lowest/highest-occurrence reference; bounded, not a proof for longer inputs.", "DESIGN.md#c04"),
}

NOT_YET = "check not built yet in this session (planned, see DESIGN.md)"
NA = {
    "C17": "compile-time rejection of programs: the verdict is a rustc diagnostic from macro matching/type checking; there is no "
           "execution, symbolic value or assertion for a solver to decide, and a program that must not compile cannot be given "
           "to Kani. Deciding it would need differential compilation, a different technique family.",
}

def main():
    ids = ["C%02d" % i for i in range(1, 21)]
    # a property is claimed when its harness module exists
    checks = []
    na = []
    for pid in ids:
        if pid in NA:
            na.append({"property_id": pid, "reason": NA[pid]})
            continue
        src = os.path.join(ROOT, "harness", "src", pid.lower() + ".rs")
        if pid not in CLAIMED or not os.path.exists(src):
            na.append({"property_id": pid, "reason": NOT_YET})
            continue
        tech, text, ref = CLAIMED[pid]
        checks.append({
            "property_id": pid,
            "quick_cmd": "./check %s --tier quick" % pid,
            "thorough_cmd": "./check %s --tier thorough" % pid,
            "evidence_file": "evidence/%s.json" % pid,
            "replay_cmd_template": "./check %s --replay {path}" % pid,
            "engine": "kani-cbmc",
            "level_claimed": {"category": "model_checking", "text": text, "design_ref": ref},
            "level_note": LEVEL_NOTE,
            "technique": tech,
        })
    m = {
        "version": 1,
        "setup_cmd": "./check --setup",
        "hooks": {
            "guard": "konst_verif",
            "enable": "no source hooks are needed: every start state is constructible through konst's public API; the harness "
                      "crate /verif/harness depends on /repo/konst and /repo/konst_kernel by path",
            "baseline_off_cmd": "cd /repo && cargo test --workspace --no-fail-fast --offline",
            "source_commits": [],
            "add_only": True,
        },
        "engines": [{
            "name": "kani-cbmc", "path": "check",
            "serves_properties": [c["property_id"] for c in checks],
            "kind_free_text": "bounded model checking of the compiled konst code: Kani 0.68 translates the MIR of /repo (and of the "
                              "harness crate /verif/harness) to a goto program, CBMC 6.11 unwinds it to the stated bounds with "
                              "unwinding assertions on, cadical decides; counterexamples are replayed natively (concrete playback) "
                              "before a VIOLATION is printed",
        }, {
            "name": "mir-z3", "path": "mirsmt.py",
            "serves_properties": ["C16"],
            "kind_free_text": "symbolic execution of rustc's MIR (nightly -Zunpretty=mir of /repo's current tree, regenerated every run) "
                              "of loop-free functions into z3 terms, one query per path plus a totality query; used where Kani's model "
                              "of an operator is wrong (`<` on bool). Called by ./check C16; unknown MIR forms make the run inconclusive; "
                              "the translator is validated against the natively compiled functions on every concrete input each run",
        }],
        "checks": checks,
        "not_applicable": na,
        "notes": "Every check: ./check <ID> [--tier quick|thorough]; exit 0 held / 1 VIOLATION / 2 inconclusive (timeout, OOM, vacuous "
                 "harness, non-reproducing counterexample). known_findings.json lists open findings and fixed: records.",
    }
    json.dump(m, open(os.path.join(ROOT, "MANIFEST.json"), "w"), indent=1)
    print("claimed:", [c["property_id"] for c in checks])

if __name__ == "__main__":
    main()
