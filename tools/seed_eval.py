#!/usr/bin/env python3
"""Confirm and evaluate sub-agent mutations.  tools/seed_eval.py <ID> [<i> ...] [--check-ids C02,C01]

For each /tmp/wt/<ID>/_out/change<i>.diff:
  1. in the scratch worktree /tmp/wt/<ID> (reset to HEAD): the demo passes; apply the patch; the
     workspace builds and the test suite passes apart from the 3 known failures; the demo fails.
  2. exploration run of the check(s) against the patched worktree (VERIF_REPO=<worktree>, private
     build dirs) - fast feedback only; the recorded run is made later by tools/seed_sweep.py with
     the patch applied to /repo itself.
Writes /tmp/wt/<ID>/_out/result<i>.json.
"""
import json, os, re, subprocess, sys, time, shutil

KNOWN_FAIL = {"string::priv_string_tests::invalid_start", "string::priv_string_tests::invalid_end", "string::priv_string_tests::invalid_both"}


def sh(cmd, cwd, timeout=3600, env=None):
    e = dict(os.environ)
    e["CARGO_NET_OFFLINE"] = "true"
    if env:
        e.update(env)
    p = subprocess.run(cmd, shell=True, cwd=cwd, stdout=subprocess.PIPE, stderr=subprocess.STDOUT, text=True, timeout=timeout, env=e)
    return p.returncode, p.stdout


def run_suite(wt):
    rc, out = sh("cargo test -j 6 --workspace --no-fail-fast --offline 2>&1", wt)
    failed = set(re.findall(r"^test (\S+) .*\.\.\. FAILED", out, re.M)) | set(re.findall(r"^test (\S+) - should panic \.\.\. FAILED", out, re.M))
    passed = sum(int(x) for x in re.findall(r"test result: \w+\. (\d+) passed", out))
    compiled = "error: could not compile" not in out and "error[E" not in out
    return compiled, failed, passed, out


def run_demo(wt, i, meta):
    name = "vdemo%s" % i
    shutil.copy(os.path.join(wt, "_out", "demo%s.rs" % i), os.path.join(wt, "konst", "tests", name + ".rs"))
    feats = "--features rust_1_83" if "rust_1_83" in (meta.get("demo_cmd") or "") else ""
    rc, out = sh("cargo test -j 6 --offline -p konst %s --test %s 2>&1" % (feats, name), wt)
    os.remove(os.path.join(wt, "konst", "tests", name + ".rs"))
    m = re.findall(r"test result: (\w+)\. (\d+) passed; (\d+) failed", out)
    if not m:
        if "(signal:" in out or "SIGSEGV" in out or "SIGABRT" in out:
            return False, "DEMO PROCESS DIED:\n" + out[-1500:]
        if "error" in out and ("could not compile" in out or "error[E" in out):
            return False, "DEMO DOES NOT COMPILE (const-eval / type error):\n" + out[-1500:]
        return None, out[-2000:]
    ok = all(x[0] == "ok" for x in m) and sum(int(x[1]) for x in m) > 0
    return ok, out[-1500:]


def main():
    wtname = sys.argv[1]          # e.g. C02 or C02b (second-round worktree of the same property)
    pid = wtname.rstrip("bc")
    args = sys.argv[2:]
    check_ids = [pid]
    no_check = "--no-check" in args
    args = [a for a in args if a != "--no-check"]
    if "--check-ids" in args:
        k = args.index("--check-ids")
        check_ids = args[k + 1].split(",")
        args = args[:k] + args[k + 2:]
    wt = "/tmp/wt/" + wtname
    outd = os.path.join(wt, "_out")
    idx = args or sorted(re.findall(r"change(\w+)\.diff", " ".join(os.listdir(outd))))
    for i in idx:
        res = {"property": pid, "index": i}
        meta = {}
        try:
            meta = json.load(open(os.path.join(outd, "meta%s.json" % i)))
        except Exception as ex:
            res["meta_error"] = str(ex)
        sh("git checkout -- . && git clean -fdq konst konst_kernel konst_macro_rules konst_proc_macros", wt)
        ok0, o0 = run_demo(wt, i, meta)
        res["demo_passes_on_head"] = ok0
        rc, out = sh("git apply _out/change%s.diff" % i, wt)
        res["applies"] = rc == 0
        if rc != 0:
            res["apply_output"] = out[-500:]
            json.dump(res, open(os.path.join(outd, "result%s.json" % i), "w"), indent=1)
            continue
        compiled, failed, passed, sout = run_suite(wt)
        res["compiles"] = compiled
        res["suite_passed"] = passed
        res["suite_unexpected_failures"] = sorted(failed - KNOWN_FAIL)
        ok1, o1 = run_demo(wt, i, meta)
        res["demo_fails_with_change"] = (ok1 is False)
        res["demo_output_with_change"] = o1[-600:]
        res["confirmed"] = bool(ok0 and compiled and not (failed - KNOWN_FAIL) and passed >= 520 and ok1 is False)
        res["checks"] = {}
        if res["confirmed"] and not no_check:
            for cid in check_ids:
                t0 = time.time()
                rc, out = sh("./check %s --tier quick 2>&1" % cid, "/verif", timeout=7200, env={"VERIF_REPO": wt})
                res["checks"][cid] = {"exit": rc, "wall_s": round(time.time() - t0), "violation_lines": [l for l in out.splitlines() if l.startswith("VIOLATION")][:5],
                                      "also_failing": [l for l in out.splitlines() if l.startswith("also failing")][:8],
                                      "inconclusive": [l for l in out.splitlines() if l.startswith("INCONCLUSIVE")][:5],
                                      "summary": out.strip().splitlines()[-1] if out.strip() else ""}
        sh("git checkout -- . && git clean -fdq konst konst_kernel konst_macro_rules konst_proc_macros", wt)
        json.dump(res, open(os.path.join(outd, "result%s.json" % i), "w"), indent=1)
        print(pid, i, "confirmed" if res["confirmed"] else "NOT-CONFIRMED", {k: v["exit"] for k, v in res["checks"].items()}, flush=True)


if __name__ == "__main__":
    main()
