#!/usr/bin/env python3
"""Recorded runs of the registered checks against the seeded changes, the prescribed way:
   git -C /repo apply seeded/<id>/patch.diff ; ./check <ID> --tier quick ; git -C /repo checkout -- .
Evidence of these runs goes to a scratch directory (VERIF_EVIDENCE_DIR) so that /verif/evidence keeps
describing the unchanged tree. Usage: tools/seed_sweep.py [seed-dir-name ...] [--only-missing]"""
import json, os, subprocess, sys, time

ROOT = os.path.dirname(os.path.dirname(os.path.abspath(__file__)))


def sh(cmd, **kw):
    return subprocess.run(cmd, shell=True, stdout=subprocess.PIPE, stderr=subprocess.STDOUT, text=True, **kw)


def main():
    args = [a for a in sys.argv[1:] if not a.startswith("--")]
    only_missing = "--only-missing" in sys.argv
    seeds = args or sorted(os.listdir(os.path.join(ROOT, "seeded")))
    if sh("git -C /repo status --porcelain --untracked-files=no").stdout.strip():
        print("refusing: /repo has uncommitted changes")
        return 2
    head = sh("git -C /repo rev-parse --short HEAD").stdout.strip()
    for sd in seeds:
        d = os.path.join(ROOT, "seeded", sd)
        mp = os.path.join(d, "meta.json")
        if not os.path.exists(os.path.join(d, "patch.diff")):
            continue
        meta = json.load(open(mp))
        if only_missing and meta.get("recorded_run", {}).get("repo_head") == head:
            continue
        checks = meta.get("checks_to_run") or [meta["property"]]
        r = sh("git -C /repo apply %s" % os.path.join(d, "patch.diff"))
        if r.returncode != 0:
            meta["recorded_run"] = {"repo_head": head, "error": "patch does not apply: " + r.stdout[-300:]}
            json.dump(meta, open(mp, "w"), indent=1)
            print(sd, "PATCH DOES NOT APPLY")
            continue
        runs = {}
        try:
            for cid in checks:
                t0 = time.time()
                env = dict(os.environ, VERIF_EVIDENCE_DIR=os.path.join(ROOT, ".build", "sweep_evidence"), VERIF_MAX_REPLAYS="1")
                p = subprocess.run(["./check", cid, "--tier", "quick"], cwd=ROOT, env=env, stdout=subprocess.PIPE, stderr=subprocess.STDOUT, text=True)
                lines = p.stdout.splitlines()
                runs[cid] = {"cmd": "git -C /repo apply seeded/%s/patch.diff && ./check %s --tier quick && git -C /repo checkout -- ." % (sd, cid),
                             "exit": p.returncode, "wall_s": round(time.time() - t0),
                             "violation_lines": [l for l in lines if l.startswith("VIOLATION")][:4],
                             "also_failing": len([l for l in lines if l.startswith("also failing")]),
                             "inconclusive": [l for l in lines if l.startswith("INCONCLUSIVE")][:3],
                             "summary": lines[-1] if lines else ""}
        finally:
            sh("git -C /repo checkout -- .")
        detected = any(v["exit"] == 1 for v in runs.values())
        meta["recorded_run"] = {"repo_head": head, "detected": detected, "runs": runs, "at": time.strftime("%Y-%m-%dT%H:%M:%SZ", time.gmtime())}
        json.dump(meta, open(mp, "w"), indent=1)
        print(sd, "DETECTED" if detected else "MISSED", {k: v["exit"] for k, v in runs.items()}, flush=True)
    return 0


if __name__ == "__main__":
    sys.exit(main())
