#!/usr/bin/env python3
"""Import confirmed sub-agent mutations from /tmp/wt/<ID>/_out into /verif/seeded/<ID>-<i>/
(patch.diff, demo.rs, meta.json). Only seeds whose result<i>.json says confirmed are imported."""
import json, os, re, shutil, sys

ROOT = os.path.dirname(os.path.dirname(os.path.abspath(__file__)))
ids = sys.argv[1:] or sorted(d for d in os.listdir("/tmp/wt") if re.match(r"C\d\d[bc]?$", d))
for wtname in ids:
    pid = wtname.rstrip("bc")
    outd = "/tmp/wt/%s/_out" % wtname
    if not os.path.isdir(outd):
        continue
    for f in sorted(os.listdir(outd)):
        m = re.match(r"result(\w+)\.json$", f)
        if not m:
            continue
        i = m.group(1)
        res = json.load(open(os.path.join(outd, f)))
        if not res.get("confirmed"):
            print("skip (not confirmed)", pid, i)
            continue
        try:
            meta = json.load(open(os.path.join(outd, "meta%s.json" % i)))
        except Exception:
            meta = {}
        dst = os.path.join(ROOT, "seeded", "%s-%s" % (wtname, i))
        os.makedirs(dst, exist_ok=True)
        shutil.copy(os.path.join(outd, "change%s.diff" % i), os.path.join(dst, "patch.diff"))
        shutil.copy(os.path.join(outd, "demo%s.rs" % i), os.path.join(dst, "demo.rs"))
        old = {}
        if os.path.exists(os.path.join(dst, "meta.json")):
            old = json.load(open(os.path.join(dst, "meta.json")))
        out = {
            "property": pid,
            "what": meta.get("what", ""),
            "needs": meta.get("needs", ""),
            "demo_cmd": meta.get("demo_cmd", ""),
            "author": "independent sub-agent given only the property text and a scratch worktree",
            "confirmed_by_me": {
                "how": "tools/seed_eval.py in the scratch worktree: demo passes on HEAD; patch applies; workspace builds; "
                       "`cargo test --workspace --no-fail-fast --offline` passes apart from the 3 known failures; demo fails with the patch",
                "demo_passes_on_head": res.get("demo_passes_on_head"), "compiles": res.get("compiles"),
                "suite_passed": res.get("suite_passed"), "suite_unexpected_failures": res.get("suite_unexpected_failures"),
                "demo_fails_with_change": res.get("demo_fails_with_change"),
            },
            "exploration_runs": res.get("checks", {}),
        }
        for k in ("recorded_run", "history", "checks_to_run", "note", "expected_detection"):
            if k in old:
                out[k] = old[k]
        json.dump(out, open(os.path.join(dst, "meta.json"), "w"), indent=1)
        print("imported", pid, i, {k: v.get("exit") for k, v in res.get("checks", {}).items()})
