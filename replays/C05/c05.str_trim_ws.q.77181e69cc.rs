// verif-replay property=C05 harness=c05::str_trim_ws::q features=c05 kind=native
// failed: assertion failed: same(kstr::trim(hay).as_bytes(), hb.trim_ascii()) @ src/c05.rs:96:5 in function c05::str_trim_ws::<6>
/// Test generated for harness `c05::str_trim_ws::q` 
///
/// Check for `assertion`: "assertion failed: same(kstr::trim(hay).as_bytes(), hb.trim_ascii())"

#[test]
fn kani_concrete_playback_q_14171218256314834127() {
    let concrete_vals: Vec<Vec<u8>> = vec![
        // 12
        vec![12],
        // 141
        vec![141],
        // 10
        vec![10],
        // 13
        vec![13],
        // 13
        vec![13],
        // 10
        vec![10],
        // 1ul
        vec![1, 0, 0, 0, 0, 0, 0, 0],
    ];
    kani::concrete_playback_run(concrete_vals, q);
}
