// verif-replay property=C02 harness=c02::t_arr3::getters::q features=c02 kind=ub
// failed: Offset result address must equal original pointer address plus offset @ library/kani/src/lib.rs:57:1 in function kani::rustc_intrinsics::offset::<[u8; 3], *const [u8; 3], isize>
// kind=ub: failing checks reported by CBMC on the real code
/* Offset result address must equal original pointer address plus offset @ library/kani/src/lib.rs:57:1 in function kani::rustc_intrinsics::offset::<[u8; 3], *const [u8; 3], isize> */
/// Test generated for harness `c02::t_arr3::getters::q` 
///
/// Check for `safety_check`: "Offset result address must equal original pointer address plus offset"

#[test]
fn kani_concrete_playback_q_18129855220970717947() {
    let concrete_vals: Vec<Vec<u8>> = vec![
        // 255
        vec![255],
        // 255
        vec![255],
        // 255
        vec![255],
        // 255
        vec![255],
        // 255
        vec![255],
        // 255
        vec![255],
        // 255
        vec![255],
        // 255
        vec![255],
        // 255
        vec![255],
        // 255
        vec![255],
        // 255
        vec![255],
        // 255
        vec![255],
        // 255
        vec![255],
        // 255
        vec![255],
        // 255
        vec![255],
        // 4ul
        vec![4, 0, 0, 0, 0, 0, 0, 0],
        // 18446744073709551615ul
        vec![255, 255, 255, 255, 255, 255, 255, 255],
        // 4ul
        vec![4, 0, 0, 0, 0, 0, 0, 0],
    ];
    kani::concrete_playback_run(concrete_vals, q);
}
